#!/bin/bash
# usage: ./run.sh <Cxx> quick|thorough        run one property check
#        ./run.sh <Cxx> --replay <file>       re-evaluate a recorded witness
# Rebuilds the harness against the current working tree of /repo (or $VERIF_REPO)
# with the hooks enabled (-tags verif) on every invocation.
#
# Build variants: plain; race (C15: -race); overlay (C13: patched copies of two files of package os);
# yield: the harness is built against a scratch copy of the repository in which cmd/yieldify inserted a
# call to a perturbation hook between all critical sections of package index (copy made from the
# current working tree at run time, outside /repo and /verif, removed when the run ends).
# C01 C02 C04 C05 C06 C11 C15 run in two stages in both tiers (C03 C14 in the thorough tier): the ordinary
# build, then the yield-instrumented one (its evidence carries the first stage's coverage along; in the
# thorough tier the second stage runs a quarter of the cases). VERIF_VARIANT=yield forces the instrumented build alone for any id / tier,
# VERIF_VARIANT=plain the ordinary build alone.
set -u
cd "$(dirname "$0")"
ROOT=$(pwd)
export VERIF_ROOT=${VERIF_ROOT:-$ROOT}
export GOFLAGS=-mod=mod GOPROXY=off GOSUMDB=off GOTOOLCHAIN=local
SRCREPO=${VERIF_REPO:-/repo}
ID=${1:?property id}
MODE=${2:?quick|thorough|--replay}
mkdir -p bin

YIELD_DIR=""
cleanup() { if [ -n "$YIELD_DIR" ]; then rm -rf "$YIELD_DIR"; fi; }
trap cleanup EXIT

# run_stage <yield:0|1>
run_stage() {
  local yield=$1
  local REPO=$SRCREPO
  local variant=plain
  case "$ID" in
    C15) variant=race ;;
    C13) variant=overlay ;;
  esac
  local TAGS=verif
  if [ "$yield" = 1 ]; then
    ( cd harness && go build -o "$ROOT/bin/yieldify" ./cmd/yieldify ) 2> "bin/build-yieldify.log" || { echo "BUILD-FAILED (yieldify)"; tail -20 bin/build-yieldify.log; return 2; }
    YIELD_DIR=$(mktemp -d "${TMPDIR:-/tmp}/verif-yield-XXXXXX")
    "$ROOT/bin/yieldify" "$SRCREPO" "$YIELD_DIR/bluge" > "bin/yieldify-$ID.log" 2>&1 || { echo "BUILD-FAILED (yield instrumentation of $SRCREPO)"; tail -5 "bin/yieldify-$ID.log"; return 2; }
    REPO="$YIELD_DIR/bluge"
    variant="$variant-yield"
    TAGS=verif,verifyield
  fi
  local tag
  tag=$(echo -n "$SRCREPO" | cksum | cut -d' ' -f1)
  local BIN="$ROOT/bin/vcheck-$variant-$tag"
  local MODARGS=()
  if [ "$REPO" != "/repo" ]; then
    local md="bin/mod-$tag-$variant-$$"
    mkdir -p "$md"
    sed "s#=> /repo#=> $REPO#" harness/go.mod > "$md/go.mod"
    cp harness/go.sum "$md/go.sum"
    MODARGS=(-modfile="$ROOT/$md/go.mod")
  fi
  local BUILDARGS=()
  case "$variant" in
    race*) BUILDARGS+=(-race) ;;
    overlay*)
      local OV="$ROOT/bin/overlay-$tag"
      "$ROOT/overlay/mkoverlay.sh" "$OV" || { echo "overlay preparation failed"; return 2; }
      BUILDARGS+=(-overlay "$OV/overlay.json")
      TAGS="$TAGS,verifoverlay"
      ;;
  esac
  ( cd harness && go build "${MODARGS[@]}" "${BUILDARGS[@]}" -tags "$TAGS" -o "$BIN.$$" ./cmd/vcheck ) 2> "bin/build-$variant-$tag.log"
  local rc=$?
  if [ "$REPO" != "/repo" ]; then rm -rf "bin/mod-$tag-$variant-$$"; fi
  if [ $rc -ne 0 ]; then
    echo "BUILD-FAILED (harness against $REPO, variant $variant); see bin/build-$variant-$tag.log"
    tail -20 "bin/build-$variant-$tag.log"
    rm -f "$BIN.$$"
    return 2
  fi
  mv -f "$BIN.$$" "$BIN"
  export VERIF_REPO_DIR="$REPO"
  if [ "$MODE" = "--replay" ]; then
    "$BIN" "$ID" --replay "${REPLAY_FILE}"
  else
    "$BIN" "$ID" "$MODE"
  fi
  rc=$?
  cleanup; YIELD_DIR=""
  return $rc
}

if [ "$MODE" = "--replay" ]; then
  REPLAY_FILE=${3:?replay file}
  if [ "${VERIF_VARIANT:-}" = "yield" ]; then run_stage 1; else run_stage 0; fi
  exit $?
fi
if [ "${VERIF_VARIANT:-}" = "yield" ]; then
  VERIF_STAGE=yield run_stage 1
  exit $?
fi
two_stage=0
case "$ID" in C01|C02|C04|C05|C06|C11|C15) two_stage=1 ;; esac
if [ "$MODE" = "thorough" ]; then
  case "$ID" in C03|C14) two_stage=1 ;; esac
fi
if [ "${VERIF_VARIANT:-}" = "plain" ]; then two_stage=0; fi
if [ $two_stage = 0 ]; then
  run_stage 0
  exit $?
fi
VERIF_STAGE=plain VERIF_MORE_STAGES=1 run_stage 0
rc=$?
if [ $rc -ne 0 ]; then exit $rc; fi
echo "--- stage 2: yield-instrumented build"
VERIF_STAGE=yield VERIF_STAGE_MERGE=1 run_stage 1
exit $?
