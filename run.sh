#!/bin/bash
# usage: ./run.sh <Cxx> quick|thorough        run one property check
#        ./run.sh <Cxx> --replay <file>       re-evaluate a recorded witness
# Rebuilds the harness against the current working tree of /repo (or $VERIF_REPO)
# with the hooks enabled (-tags verif) on every invocation.
set -u
cd "$(dirname "$0")"
ROOT=$(pwd)
export VERIF_ROOT=${VERIF_ROOT:-$ROOT}
export GOFLAGS=-mod=mod GOPROXY=off GOSUMDB=off GOTOOLCHAIN=local
REPO=${VERIF_REPO:-/repo}
ID=${1:?property id}
MODE=${2:?quick|thorough|--replay}
variant=plain
case "$ID" in
  C15) variant=race ;;
  C13) variant=overlay ;;
esac
if [ "${VERIF_VARIANT:-}" != "" ]; then variant=$VERIF_VARIANT; fi
mkdir -p bin
tag=$(echo -n "$REPO" | cksum | cut -d' ' -f1)
BIN="$ROOT/bin/vcheck-$variant-$tag"
MODARGS=()
if [ "$REPO" != "/repo" ]; then
  mkdir -p "bin/mod-$tag"
  sed "s#=> /repo#=> $REPO#" harness/go.mod > "bin/mod-$tag/go.mod"
  cp harness/go.sum "bin/mod-$tag/go.sum"
  MODARGS=(-modfile="$ROOT/bin/mod-$tag/go.mod")
fi
BUILDARGS=(-tags verif)
case "$variant" in
  race) BUILDARGS+=(-race) ;;
  overlay)
    OV="$ROOT/bin/overlay-$tag"
    "$ROOT/overlay/mkoverlay.sh" "$OV" || { echo "overlay preparation failed"; exit 2; }
    BUILDARGS+=(-overlay "$OV/overlay.json" -tags verif,verifoverlay)
    ;;
esac
( cd harness && go build "${MODARGS[@]}" "${BUILDARGS[@]}" -o "$BIN.$$" ./cmd/vcheck ) 2> "bin/build-$variant-$tag.log"
rc=$?
if [ $rc -ne 0 ]; then
  echo "BUILD-FAILED (harness against $REPO, variant $variant); see bin/build-$variant-$tag.log"
  tail -20 "bin/build-$variant-$tag.log"
  rm -f "$BIN.$$"
  exit 2
fi
mv -f "$BIN.$$" "$BIN"
export VERIF_REPO_DIR="$REPO"
if [ "$MODE" = "--replay" ]; then
  exec "$BIN" "$ID" --replay "${3:?replay file}"
fi
exec "$BIN" "$ID" "$MODE"
