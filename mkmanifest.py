#!/usr/bin/env python3
"""Regenerates MANIFEST.json from the table below (kept in one place so that the manifest is always valid)."""
import json, subprocess, sys

BUILT = sys.argv[1:] if len(sys.argv) > 1 else None  # optional explicit list; default: every id with an entry in CHECKS

HOOK_COMMITS = ["204cfe3", "2edc694", "e1d8638"]

# id -> (category, technique, level text, level note, design ref)
CHECKS = {
 "C15": ("exploration",
         "Go race detector over a mixed concurrent workload in child processes of a -race build (reports logged, parsed and de-duplicated by the innermost bluge frames of both accesses), Close-under-load with a goroutine-dump deadlock oracle, and reopen-after-close content check",
         "Writers on disjoint id spaces, reader acquisition, 3..8 parallel searches per reader covering the scored and unscored conjunction/disjunction optimisations, phrase, sorted top-N with aggregations and stored-field loads run under seeded jitter and GOMAXPROCS 1..16 while merges and persists are in flight; the writer is closed after all Batch callers returned (in a third of the runs while searches still run; in most runs Close is started while a background goroutine is held inside a hand-over step - merger before / introducer inside a merge introduction, introducer inside a persist introduction, persister before a snapshot write, after a segment load - and then let go) and the directory reopened. Any race report with bluge frames, a dead child, a Close that provably deadlocks or lost acknowledged content fails the check. Held on the executions observed; the race detector only sees executed accesses. Both tiers run twice: on the ordinary build and on a build against a scratch copy of the working tree in which cmd/yieldify inserted a seeded perturbation hook between all critical sections of package index (before every Lock / send / receive / select, after every Unlock / close / go), so that windows without a directory or plug-in seam are widened too; the yield points reached are reported. A probe runs the same workload on the second bundled segment format (ice v2), whose shared stored-field buffer is a listed finding.",
         "Trusts: the Go race detector; 40 s Close watchdog decided by two goroutine dumps 3 s apart, restricted to the writer's own goroutines, all blocked in the same place (else inconclusive).",
         "DESIGN.md §4 C15"),
 "C04": ("exploration",
         "runtime monitoring of held readers in child processes: complete fingerprints (count, documents with stored fields, document values, dictionaries, query battery) re-taken twice back to back after batches, around scripted background steps (segment removal, merge introduction, persist swap), at quiescence and after Writer.Close; liveness assertions in a wrapping segment plug-in (use after handle close); child death = fault",
         "Readers of several ages (current-root, superseded, OpenReader beside the live writer, outliving Close) are kept open while a merge-happy writer with seeded jitter continues; each reader's fingerprint must never change and its content must equal the abstract index at acquisition; gates place one background step of each kind between two reads (segment removal, merge introduction with a reader taken inside the window, persist swap, and a Writer.Close started while the merger is held at the beginning of a file merge) and the log of realised (reader kind, step kind) pairs is reported. Held on the runs observed. Both tiers run twice: on the ordinary build and on a build against a scratch copy of the working tree in which cmd/yieldify inserted a seeded perturbation hook between all critical sections of package index (before every Lock / send / receive / select, after every Unlock / close / go), so that windows without a directory or plug-in seam are widened too; the yield points reached are reported.",
         "Trusts: fingerprint determinism (scores included), role detection, the plug-in wrapper's handle table.",
         "DESIGN.md §4 C04"),
 "C05": ("exploration",
         "linearizability checking (porcupine) of client-boundary histories recorded from real concurrent Writer.Batch / Writer.Reader calls, against the abstract index as sequential model; schedules from seeded jitter at all seams and from scripted gates on the obsoletes computation (stale-root window)",
         "Histories of 2..8 writers and 1..3 readers over <= 4 ids (safe and unsafe mode, memory and file-system directories, merges on) are recorded with call/return stamps from one atomic clock and a final read, and each is decided by porcupine: batches must take effect atomically in a real-time-respecting total order and every read must equal the state after a prefix. Gate scenarios force the window in which a batch computed its obsoletes against a root that a conflicting batch (or a persist / merge) has meanwhile replaced. Many short histories; checker time-outs are counted as inconclusive. Both tiers run twice: on the ordinary build and on a build against a scratch copy of the working tree in which cmd/yieldify inserted a seeded perturbation hook between all critical sections of package index (before every Lock / send / receive / select, after every Unlock / close / go), so that windows without a directory or plug-in seam are widened too; the yield points reached are reported.",
         "Trusts: porcupine v1.3.0; the 15-line sequential model; stamps taken at the client boundary.",
         "DESIGN.md §2.7, §4 C05"),
 "C06": ("exploration",
         "scripted-gate runtime monitoring: the merger or persister of a real writer is held at each phase boundary of file merges, in-memory merges and persist swaps (directory, plug-in and event seams) while conflicting batches land; reader-vs-abstract-index oracle while held, after release, after a further batch and after reopen",
         "For every (merge kind, phase, delete pattern) placement the background goroutine is blocked at the phase point, batches delete/update documents of exactly the segments under merge (from the Merge call's inputs), and the content must equal the abstract index at every stage; placements whose gate was not reached are counted as not realised. Skipped-merge introductions and merge introductions are read from the writer's statistics to show the paths were taken. Enumerated over the placement grid; other interleavings sampled by repetition. Both tiers run twice: on the ordinary build and on a build against a scratch copy of the working tree in which cmd/yieldify inserted a seeded perturbation hook between all critical sections of package index (before every Lock / send / receive / select, after every Unlock / close / go), so that windows without a directory or plug-in seam are widened too; the yield points reached are reported.",
         "Trusts: role detection from goroutine stacks; gate watchdog 8 s (placement then inconclusive).",
         "DESIGN.md §2.5, §4 C06"),
 "C01": ("exploration",
         "reference-model monitor: after every Batch call of generated histories a fresh Reader of the real writer is compared (Count, match-all with stored fields, lookup of every id) with the abstract index, over a configuration matrix, with merges/persists/segment drops provoked and seeded jitter at every directory, plug-in and event seam",
         "Histories of 24..50 calls over 7 ids (updates, inserts of existing ids, updates carrying another id, deletes, empty and delete-only batches, documents of all field kinds) run on {file system, memory} x {ice v1, v2} x {safe, unsafe} with merge-happy options; the reader taken after each call and after background work settled must equal the abstract index exactly. Layouts and merges actually seen are measured through the hooks. Held on the histories and schedules observed. Both tiers run twice: on the ordinary build and on a build against a scratch copy of the working tree in which cmd/yieldify inserted a seeded perturbation hook between all critical sections of package index (before every Lock / send / receive / select, after every Unlock / close / go), so that windows without a directory or plug-in seam are widened too; the yield points reached are reported.",
         "Trusts: the abstract index (a 15-line Apply), CanonStored decoding of stored fields with the public decoders. Single issuer.",
         "DESIGN.md §4 C01"),
 "C18": ("exploration",
         "hostile-input monitoring of every bundled analyzer, tokenizer, token filter configuration and char filter in child processes (panic capture, progress watchdog) with token-stream oracles (determinism, position increments, offset ranges, tokenizer slice equality) and an index/search round trip",
         "Script-aware and byte-level generators, plus an enumerated sweep of all (rune, mark) / (mark, rune) pairs over nine script blocks x 22 combining, voiced, joiner and width marks, feed all 24 analyzers, 8 tokenizers, ~75 filter configurations (fed synthetic token streams directly, including invalid UTF-8, empty and one-rune tokens, and streams with tokens left out and position gaps as a stop filter in front produces them) and 5 char filters; every output is checked for the stated token invariants, two runs must agree, every fourth tokenised text is indexed and must be found by a match query requiring all of its own terms, and one analyzer instance is used by four goroutines at once and by the analysis workers of a real 48-document batch (tokens must equal those of a fresh instance used alone; every document of the batch must be found by its own text). Held on the inputs explored.",
         "Trusts: child-process observation; the analyzer's own CharFilters define 'the text the tokenizer saw'. The round trip hands the field its own copy of the bytes (token filters rewrite terms in place).",
         "DESIGN.md §4 C18"),
 "C20": ("exploration",
         "runtime oracle re-parsing real highlighter output (markup, escaping, separators) against the stored text and the term locations of real searches; adversarial location maps and invalid texts in child processes for the no-panic clause",
         "Generated valid UTF-8 texts are indexed with four bundled analyzers (cjk for overlapping occurrences), searched with locations and highlighted with fragment sizes 1..300, 0..5 fragments and both formatters; each fragment must de-mark/unescape to a contiguous slice of the text, every mark must be one occurrence or a run of overlapping ones, fragments must be placeable without overlap, at most num, and the best one must hold a match when one fits. Hostile location maps (negative, inverted, out of range, unsorted) and invalid texts must not kill a child. Held on the inputs explored.",
         "Trusts: the markup parser of the harness; 'fits' = rune length of the occurrence <= fragment size; ambiguous placements resolved in favour of the code.",
         "DESIGN.md §4 C20"),
 "C14": ("fault_enumeration",
         "fault injection at the Directory seam, enumerated over the operation indexes of a recorded fault-free run, each faulty re-run in a child process monitored for death / lack of progress, with reader-vs-model oracles after every batch, surfacing checks (Batch error, AsyncError), an acknowledgement probe after the fault clears and crash-image recovery of the faulty trace",
         "For seeded histories the fault-free operation sequence is recorded; the same history is then re-run with an injected failure at chosen operation indexes for Persist (before any byte / after a partial write / after the full write), Load, Remove and List, transient and sticky, in safe and unsafe mode (pairs of placements in the thorough tier). Each run must not die or stall, readers must follow the applied batches, background failures must reach AsyncError (and the waiting Batch), a Write that failed inside an item writer must not end in a reported success (the injector passes a swallowed error on faithfully and marks it), a failed persist must leave nothing under the item's name, after the fault the writer's three background goroutines must still exist (14 further batches), a List / Load failure while an index holding data is re-opened must be reported by the open or leave a fully usable writer (30 further batches, readers, final content), the batch after the fault must be acknowledged, and all boundary crash images of the faulty trace must recover to a state not older than the last acknowledgement. Enumerated over the sampled placements of each history. The thorough tier runs a second stage on the yield-instrumented build (see C01).",
         "Trusts: directory-level injection as a model of I/O failure (os-level variants covered by C13); storage model of C02; 45 s progress watchdog (wall clock) reported with goroutine dump.",
         "DESIGN.md §4 C14"),
 "C11": ("exploration",
         "on-line invariant monitor hooked into a recording Directory wrapper (directory read back, decoded and CRC-checked after every snapshot persist and every remove; closer pairing; /proc/self/fd; reopen; second-writer refusal) under merge-happy runs with jitter, plus a lock hand-off stress",
         "During real merge-happy runs with retention 1..3 the monitor evaluates, at every boundary after a snapshot persist or a remove and with no operation half-way, that enough loadable snapshots with all their segment files exist and that a removed segment does not belong to the live root; one run in three injects a single transient write error of the persister (snapshot and segment writes alternating) and the retention invariant, the handle pairing and the readers must hold across it; at the end every Load closer must have been closed exactly once, no descriptor under the directory may be open, the directory must reopen at once with the right content and further writers must have been refused harmlessly (three attempts in a row at three moments of the first writer's life: a refusal must leave the lock in force). Held on the runs observed; the lock hand-off race is a listed finding. Both tiers run on the ordinary and on the yield-instrumented build (see C01).",
         "Trusts: the recording wrapper (operations serialised against the read-back only), the harness' decoder use (real ReadFrom + CRC).",
         "DESIGN.md §4 C11"),
 "C02": ("fault_enumeration",
         "offline checker over recorded directory-operation traces of real runs: ordering facts at every acknowledgement, and every crash point (boundary between recorded operations) materialised as a directory image and opened by the real OpenReader/OpenWriter in a child process, judged against the abstract index",
         "Real writers (safe mode, unsafe mode with persisted-callbacks, merge-happy / in-memory-merge / retention 1..3) run generated histories on a real directory behind a recording wrapper with seeded jitter at every seam; for each trace all operation boundaries are enumerated and each distinct image is recovered in a child: the content must be the abstract index after a batch between the last acknowledged and the last started one. Exhaustive over the boundaries of each recorded trace; interleavings sampled. A second engine runs 2..4 concurrent issuers on disjoint ids through the fully instrumented rig and judges every crash image per issuer (that issuer's documents must be its own state after j batches, last acknowledged <= j <= last called). Both tiers run twice: on the ordinary build and on a build against a scratch copy of the working tree in which cmd/yieldify inserted a seeded perturbation hook between all critical sections of package index (before every Lock / send / receive / select, after every Unlock / close / go), so that windows without a directory or plug-in seam are widened too; the yield points reached are reported.",
         "Storage model: a returned fsync means durable content, directory entries durable at operation completion, no bit rot. Acknowledgements logged after the fact (lenient). Single issuer in the first engine so that applied order = call order; per-issuer order in the concurrent engine.",
         "DESIGN.md §2.6, §4 C02"),
 "C03": ("fault_enumeration",
         "crash-image enumeration over recorded traces including every torn state of the persist in flight (prefixes, zero-filled, half-written, stale tails), recovery by the real code in child processes, and depth-2 crash/recover/continue/crash sequences with their own recorded traces",
         "As C02, plus for each in-flight persist the torn variants of its file; recovery must never kill the child, must succeed once any snapshot had completed, must yield a prefix state with both loaders, and the recovered writer must accept a batch; selected recovered images (torn newest snapshots first) are continued by a fresh writer in a child, whose trace is enumerated again. Exhaustive per trace over the stated torn-state set. The thorough tier runs a second stage on the yield-instrumented build (see C01).",
         "Storage model as C02; torn states limited to the enumerated classes; child death = fault.",
         "DESIGN.md §2.6, §4 C03"),
 "C13": ("fault_enumeration",
         "runtime monitoring of the real FileSystemDirectory.Persist under an enumerated grid of item sizes, pre-existing file states and fault placements, with os-level observation and fault injection through a go build -overlay copy of os.File (Write/Sync/Close/Truncate hooks)",
         "Every cell of the grid (7 sizes x 3 chunkings x 4 pre-existing states x {no fault, item writer failing after k bytes, cancellation after k bytes, cancellation already in force at entry, the item held by a reader (shared lock), os write failing after a partial write, os Sync failing, os Close failing} with k over a boundary set x both item kinds, plus a real ice segment and a real snapshot) is executed against the real directory; success requires byte-exact content and an observed successful Sync after the last write and before return; failure requires that nothing is left under the name. Exhaustive over the grid.",
         "Trusts: the os overlay (hooks inserted into copies of os/file.go and os/file_posix.go for this build only); a returned fsync means durable; directory entries durable at completion.",
         "DESIGN.md §4 C13"),
 "C12": ("exploration",
         "runtime oracle on the real encoder/decoder (round trip of generated snapshots) + hostile-input monitoring in child processes: every truncation / bit flip / tail / length attack of a real snapshot file opened through OpenReader and OpenWriter with both loaders, allocation measured, faults observed as child deaths",
         "Generated snapshots (0..300 segments, ids to 2^64-1, bitmaps to thousands of entries, encodings well beyond the 4096-byte read buffer) must read back equal; every damaged variant of the newest snapshot of a real directory must be rejected without a fault, within an allocation budget, and lead to the older intact snapshot (epoch and content checked); a sample of the same damages on every retained NON-newest snapshot must leave OpenReader and OpenWriter on the intact newest one; decoder-level attacks run straight into ReadFrom under an address-space limit. Exhaustive over truncations and single-bit flips of the file used; sampled otherwise.",
         "Trusts: child-process observation (a dead child = fault), runtime.MemStats for allocation. Segment type strings of >= 3 characters (the bundled plugins use \"ice\").",
         "DESIGN.md §4 C12"),
 "C08": ("exploration",
         "differential runtime oracle: the same document multiset built by 15 physical recipes, every build answering the same generated requests, canonical answers compared pairwise against the one-batch build",
         "For generated corpora (including the empty one) every recipe (batch partitioning, ice v1/v2, optimisations off, merge-happy memory/disk, reopen, Backup+OpenReader, OfflineWriter (generated corpora with any batch size, plus a sweep over every number of one-document flushes from 1 to 100 and several merge fan-ins), OfflineWriter prefix + appended batches, histories with deletions (un-merged and merge-happy), MultiSearch over partitions; each layout also asked with score mode none) must give the same id multiset, stored fields, distinct-key order and aggregations, and bit-comparable scores when neither side has merged segments or pending deletions. Held on the corpora, recipes and requests explored.",
         "Trusts: canonicalisation (ties under field sorts compared as sets; terms size above vocabulary). Layout differences are measured through the hook (segment counts) so that 'different layout' is not assumed.",
         "DESIGN.md §4 C08"),
 "C17": ("exploration",
         "metamorphic runtime oracles on real scores (direct similarity calls on boundary statistics, metamorphic corpora, per-query-type boost ratios, compound = boost x sum of separately searched parts) and an evaluator of every explanation node's stated formula",
         "Scores produced by the real similarity and searchers are checked for finiteness/positivity and the four monotonicity/linearity laws on boundary statistics and on constructed corpora, including twin indexes (the scored field alone vs. the same documents with a second field repeating the terms and a composite field) that must score the field identically; every explanation tree returned for generated query trees is re-evaluated node by node from its message templates and compared with the unexplained score. Held on the statistics, corpora and queries explored; eight listed findings (idf message, boost handling of six query types, non-positive fuzzy scores) are reported as KNOWN-FINDING.",
         "Trusts: float tolerance 1e-9 (widened by eps/x where the implementation's w - w/(1+x) form cancels); the six message templates as the definition of 'the formula stated in the message'.",
         "DESIGN.md §4 C17"),
 "C16": ("exploration",
         "runtime oracle: every aggregation calculator of real searches compared with direct computation over the reference model's matched documents, across request variants",
         "Generated aggregation trees (metrics, cardinality, quantiles, terms, numeric/date ranges, nested to depth 2, several aggregations per field, and in a third of the requests aggregations over filtered sources as siblings of plain ones over the same fields) on generated corpora and queries are computed by the real collectors under 8 request variants (n from 0 to 1000, from, three sort orders, search-after, all-matches collector) and each calculator is compared with direct counting over the model's match set. Held on the inputs explored.",
         "Trusts: the reference evaluator for the match set; HyperLogLog insertion-order independence (checked in the design phase); float tolerance 1e-9. Terms ties and multi-valued range counts judged only as far as the property fixes them.",
         "DESIGN.md §4 C16"),
 "C09": ("exploration",
         "differential runtime oracle: TopN(n, from, sort) and After/Before page chains of the real collectors against the complete match list ordered by a reference comparator over model values",
         "For generated corpora, queries, sort orders (<= 3 keys, score/text/numeric/date, asc/desc, missing first/last) and (n, from) on both sides of the slice/heap switch, the result count and the pre-allocation cap (with dedicated corpora of 1100-2000 documents so that more than 1000 matches exist beyond the cap), the returned ids must equal elements [from, from+n) of the reference ranking; After and Before chains under a total order must visit every match once in order for all page sizes, with fresh and with re-used sort order objects; a probe with present-but-empty text keys beside missing ones covers all four direction / missing placements (two of them are listed findings); heavy ties over more than a thousand matches must be broken by index order; the same score-ordered requests issued by 8 goroutines at once must each return the slice of the sequential ranking. Held on the inputs explored.",
         "Trusts: the reference comparator (model values, ties by enumeration order of the all-matches collector), scores taken from the all-matches run. Sort fields single-valued.",
         "DESIGN.md §4 C09"),
 "C07": ("exploration",
         "differential runtime oracle: real searches (both collectors; current-root, superseded and OpenReader readers; step-counting reader) against an independent evaluator of the documented query meanings over a reference model",
         "Every generated query tree over every generated multi-segment corpus with pending deletions is answered by the real searchers and compared as a multiset of ids with a from-the-documentation evaluator; query lists are served in sequence by one reader so that iterator recycling and backward Advance are in play, under three collectors (all matches, scored top-N, top-N with score mode none so that the unadorned optimisations run), on layouts that include merged segments in front of never-merged ones (one-hit postings), with wide (> 10 clause) disjunctions, antimeridian-centred geo corpora and small merged-front corpora enumerating all two-term conjunctions / disjunctions / exclusions, every 10th query is repeated and must answer identically; a small scope (3 terms x 5 docs x 2 segments x fixed boolean shapes) is enumerated (sampled in quick, complete in thorough). Held on the corpora and queries explored.",
         "Trusts: the reference evaluator (calibrated against the code on ~10^5 queries, see DESIGN.md §5), Go regexp for wildcard/regexp meaning, the harness analyzer. Not decided: fuzzy pairs where restricted/unrestricted edit distance differ, geo points within 1e-3 (and within the polar/equatorial radius spread) of a boundary, ranges that run into C10's known enumeration blow-up.",
         "DESIGN.md §4 C07"),
 "C10": ("exploration",
         "runtime oracle on the numeric package and the real range decomposition (hook) over an exhaustive boundary set, plus end-to-end range queries through a look-up counting reader (logical-step termination oracle)",
         "Round trip and order embedding are checked for all pairs of a boundary set at all 64 shifts; the real splitInt64Range output is checked for exactness on every interval x value of the set; numeric and date range queries are run end to end on a multi-segment index for all end-point pairs and open/closed combinations, counting dictionary look-ups so that a search that does not terminate is recognised by steps, not by a clock. Exhaustive over the boundary set, sampled beyond it.",
         "Trusts: Go runtime; bytes.Compare as the term order of the dictionary; the boundary set construction. -0 and +0 are distinct points.",
         "DESIGN.md §4 C10"),
 "C19": ("exploration",
         "runtime oracle on mergeplan.Plan over generated inputs + sizes-only plan/execute simulator with step-counting call-back",
         "Every generated segment list x option set is planned by the real planner and the plan is checked for membership, disjointness, size bound, half-size eligibility and determinism; termination is decided on logical steps (scoring call-backs per call); boundedness is decided at every quiescent point of simulated arrival/delete/execute histories (seven option sets, integral and fractional growth factors) against a budget the harness computes itself. Held on the inputs and histories explored, not a proof.",
         "Trusts: Go runtime; unique segment ids per input; the simulator's execution model (a task is replaced by one segment holding the live sum).",
         "DESIGN.md §4 C19"),
}

NOT_YET = "not claimed"

def main():
    props = [json.loads(l) for l in open("/verif/properties.jsonl")]
    checks = []
    na = []
    for p in props:
        pid = p["id"]
        if pid in CHECKS and (BUILT is None or pid in BUILT):
            cat, tech, text, note, ref = CHECKS[pid]
            checks.append({
                "property_id": pid,
                "quick_cmd": "./run.sh %s quick" % pid,
                "thorough_cmd": "./run.sh %s thorough" % pid,
                "evidence_file": "/verif/evidence/%s.json" % pid,
                "replay_cmd_template": "./run.sh %s --replay {path}" % pid,
                "engine": "vcheck",
                "level_claimed": {"category": cat, "text": text, "design_ref": ref},
                "level_note": note,
                "technique": tech,
            })
        else:
            na.append({"property_id": pid, "reason": NOT_YET})
    m = {
        "version": 1,
        "setup_cmd": "./setup.sh",
        "hooks": {
            "guard": "verif",
            "enable": "go build -tags verif (done by ./run.sh on every invocation; harness module replaces github.com/blugelabs/bluge with /repo)",
            "baseline_off_cmd": "cd /repo && GOFLAGS=-mod=mod GOPROXY=off GOSUMDB=off GOTOOLCHAIN=local go test -vet=off -count=1 -timeout 25m ./...",
            "source_commits": HOOK_COMMITS,
            "add_only": True,
        },
        "engines": [
            {"name": "vcheck", "path": "/verif/harness", "serves_properties": [c["property_id"] for c in checks],
             "kind_free_text": "Go harness: runtime monitors / reference-model oracles / trace and history checkers driving the real bluge code built from /repo with -tags verif; every check runs under a supervisor process (a check process killed by a fault in a bluge background goroutine is reported as a violation), child processes for anything that may fault or stall (a stalled case is re-run alone before it is reported); -race, os-overlay and yield-instrumented (cmd/yieldify) build variants"},
        ],
        "checks": checks,
        "not_applicable": na,
        "notes": "Technique family: runtime monitoring and sanitizers. Exit codes of every check: 0 held on everything explored (KNOWN-FINDING lines possible), 1 violation (VIOLATION line with replay path), 2 harness failed to build or the monitor observed too little (never expected on the unchanged tree).",
    }
    json.dump(m, open("/verif/MANIFEST.json", "w"), indent=1)
    print("claimed:", [c["property_id"] for c in checks], "not_applicable:", len(na))

main()
