#!/bin/bash
# usage: seedverify.sh <name> <srcdir with patch.diff+demo> <demo target dir in repo, '.' for root> <go test -run pattern> [checks to run, default: the property's own]
# Confirms a seeded breaking change (compiles, suite passes, demonstration fails with / passes without),
# then runs the verification checks against a scratch copy carrying the change. Nothing touches /repo's files.
# The checks run from a snapshot copy of /verif taken at the start (so that the harness can be edited while
# a long batch of seeded changes is being verified), with evidence / replays going to that copy.
set -u
NAME=$1; SRC=$2; DDIR=$3; PAT=$4; shift 4
CHECKS=${@:-$(echo $NAME | cut -c1-3)}
export GOFLAGS=-mod=mod GOPROXY=off GOSUMDB=off GOTOOLCHAIN=local
S=/tmp/sv/$NAME
V=/tmp/sv/verif-$NAME
rm -rf $S $V; git -C /repo worktree prune; mkdir -p /tmp/sv
git -C /repo worktree add -q --detach $S HEAD || exit 2
mkdir -p $V
( cd /verif && tar cf - --exclude=./bin --exclude=./.git --exclude=./evidence --exclude=./replays --exclude=./seeded . ) | ( cd $V && tar xf - )
cd $S
git apply $SRC/patch.diff || { echo "PATCH DOES NOT APPLY"; exit 2; }
go build ./... || { echo "DOES NOT COMPILE"; exit 2; }
echo "--- suite with change"
go test -vet=off -count=1 -timeout 25m ./... 2>&1 | grep -v "no test files" | grep -v "^ok" | head -5
DEMO=$(ls $SRC/demo_test.go 2>/dev/null)
cp $DEMO $DDIR/zz_seed_demo_test.go
echo "--- demo with change (expect FAIL)"
go test -vet=off -count=1 -run "$PAT" ./$DDIR/ 2>&1 | tail -4
git apply -R $SRC/patch.diff
echo "--- demo without change (expect ok)"
go test -vet=off -count=1 -run "$PAT" ./$DDIR/ 2>&1 | tail -3
git apply $SRC/patch.diff
rm -f $DDIR/zz_seed_demo_test.go
cd $V
for c in $CHECKS; do
  echo "--- check $c quick against the seeded tree"
  VERIF_REPO=$S ./run.sh $c quick > /tmp/sv/$NAME.$c.quick.log 2>&1
  echo "exit=$? $(grep -c '^VIOLATION' /tmp/sv/$NAME.$c.quick.log) violations; $(grep 'key=' /tmp/sv/$NAME.$c.quick.log | sed 's/:.*//' | sort | uniq -c | head -5 | tr '\n' ' ')"
done
cd /verif
git -C /repo worktree remove --force $S
rm -rf $V
