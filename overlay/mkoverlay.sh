#!/bin/bash
# usage: mkoverlay.sh <outdir>
# Writes copies of $GOROOT/src/os/{file.go,file_posix.go} with observation / fault hooks
# (Write, WriteAt, Sync, Close, Truncate) and an overlay.json for `go build -overlay`.
# Nothing in blugelabs/bluge is changed: the hooks sit in the standard library copy used
# for this one build.
set -e
OUT=${1:?outdir}
mkdir -p "$OUT"
export GOTOOLCHAIN=local
GR=$(go env GOROOT)
python3 - "$GR" "$OUT" <<'PY'
import sys,re,json
gr,out=sys.argv[1],sys.argv[2]
def patch(src, edits):
    s=open(src).read()
    for anchor, insert in edits:
        if anchor not in s:
            raise SystemExit("overlay anchor not found in %s: %r" % (src, anchor))
        s=s.replace(anchor, anchor+insert, 1)
    return s
fp=patch(gr+"/src/os/file_posix.go", [
 ("func (f *File) Close() error {\n\tif f == nil {\n\t\treturn ErrInvalid\n\t}\n",
  "\tif VerifHook != nil {\n\t\tif herr := VerifHook(\"close\", f, 0); herr != nil {\n\t\t\t_ = f.file.close()\n\t\t\treturn herr\n\t\t}\n\t}\n"),
 ("func (f *File) Truncate(size int64) error {\n\tif err := f.checkValid(\"truncate\"); err != nil {\n\t\treturn err\n\t}\n",
  "\tif VerifHook != nil {\n\t\tif herr := VerifHook(\"truncate\", f, size); herr != nil {\n\t\t\treturn herr\n\t\t}\n\t}\n"),
 ("func (f *File) Sync() error {\n\tif err := f.checkValid(\"sync\"); err != nil {\n\t\treturn err\n\t}\n",
  "\tif VerifHook != nil {\n\t\tif herr := VerifHook(\"sync\", f, 0); herr != nil {\n\t\t\treturn herr\n\t\t}\n\t}\n"),
])
fp+='''
// VerifHook (verification overlay) is called before Close, Truncate and Sync take effect
// and after every Write; a non-nil result is returned to the caller instead of performing
// the operation (Close still releases the descriptor).
var VerifHook func(op string, f *File, n int64) error

// VerifWriteHook (verification overlay) is consulted before a Write / WriteAt: it returns
// how many of the bytes may be written and the error to report after that partial write
// (allow < 0 or err == nil: write everything normally).
var VerifWriteHook func(f *File, b []byte) (allow int, err error)
'''
open(out+"/file_posix.go","w").write(fp)
f=patch(gr+"/src/os/file.go", [
 ("func (f *File) Write(b []byte) (n int, err error) {\n\tif err := f.checkValid(\"write\"); err != nil {\n\t\treturn 0, err\n\t}\n",
  "\tif VerifWriteHook != nil {\n\t\tif allow, herr := VerifWriteHook(f, b); herr != nil && allow >= 0 {\n\t\t\tif allow > len(b) {\n\t\t\t\tallow = len(b)\n\t\t\t}\n\t\t\tif allow > 0 {\n\t\t\t\tn, _ = f.write(b[:allow])\n\t\t\t}\n\t\t\tif VerifHook != nil {\n\t\t\t\t_ = VerifHook(\"write\", f, int64(n))\n\t\t\t}\n\t\t\treturn n, herr\n\t\t}\n\t}\n\tif VerifHook != nil {\n\t\tdefer func() { _ = VerifHook(\"write\", f, int64(n)) }()\n\t}\n"),
 ("func (f *File) WriteAt(b []byte, off int64) (n int, err error) {\n\tif err := f.checkValid(\"write\"); err != nil {\n\t\treturn 0, err\n\t}\n",
  "\tif VerifHook != nil {\n\t\tdefer func() { _ = VerifHook(\"writeat\", f, int64(n)) }()\n\t}\n"),
])
open(out+"/file.go","w").write(f)
json.dump({"Replace": {gr+"/src/os/file_posix.go": out+"/file_posix.go", gr+"/src/os/file.go": out+"/file.go"}}, open(out+"/overlay.json","w"))
PY
echo "overlay written to $OUT"
