#!/bin/bash
# Builds the harness offline from files on disk (run once after a fresh restore).
set -e
cd "$(dirname "$0")"
export GOFLAGS=-mod=mod GOPROXY=off GOSUMDB=off GOTOOLCHAIN=local
mkdir -p bin evidence replays
( cd harness && go build -tags verif -o ../bin/vcheck-setup ./cmd/vcheck )
( cd harness && go build -tags verif -race -o ../bin/vcheck-setup-race ./cmd/vcheck )
rm -f bin/vcheck-setup bin/vcheck-setup-race
echo "setup ok"
