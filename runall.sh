#!/bin/bash
# usage: ./runall.sh [quick|thorough] [ids...]   runs the checks one after the other, prints one line per check
cd "$(dirname "$0")"
TIER=${1:-quick}; shift
IDS=${@:-C01 C02 C03 C04 C05 C06 C07 C08 C09 C10 C11 C12 C13 C14 C15 C16 C17 C18 C19 C20}
mkdir -p bin/logs
for id in $IDS; do
  s=$(date +%s)
  ./run.sh $id $TIER > bin/logs/$id.$TIER.log 2>&1
  rc=$?
  e=$(date +%s)
  echo "$id $TIER exit=$rc $((e-s))s $(grep -c '^VIOLATION' bin/logs/$id.$TIER.log) violations, $(grep -c '^KNOWN-FINDING' bin/logs/$id.$TIER.log) known; $(grep "^$id $TIER" bin/logs/$id.$TIER.log | cut -c1-120)"
done
