//go:build !verifoverlay

package mon

// OSHooksAvailable reports whether this binary was built with the os overlay.
const OSHooksAvailable = false

// InstallOSHooks is a no-op without the overlay.
func InstallOSHooks(h func(op, path string, n int64) error, wh func(path string, b []byte) (int, error)) {
}
