package mon

import (
	"fmt"
	"io"
	"sync"
	"sync/atomic"

	"github.com/RoaringBitmap/roaring"
	"github.com/blugelabs/bluge/index"
	segment "github.com/blugelabs/bluge_segment_api"
	iceV1 "github.com/blugelabs/ice"
	iceV2 "github.com/blugelabs/ice/v2"
)

// RSeg wraps a bundled segment plug-in: every segment it hands out knows the Load
// handle it was built on and reports any use of its data after that handle was closed;
// the obsoletes computation, segment creation, loading and merging are seam points.
type RSeg struct {
	Version uint32
	RDir    func() *RDir // the recording directory in use (may return nil)
	Gate    func(p Point)
	// Violation is called when a segment is used after its handle was closed.
	Violation func(key, what string)

	serial int64
	mu     sync.Mutex
	merges [][]string // inputs of each Merge call (wrapped segment names)
}

type wseg struct {
	segment.Segment
	r    *RSeg
	h    *Handle
	name string
}

func (w *wseg) live(method string) bool {
	if w.h != nil && w.h.Closed() {
		if w.r.Violation != nil {
			w.r.Violation("segment-used-after-close", fmt.Sprintf("%s.%s called after the handle of %s %d (load event %d) was closed", w.name, method, w.h.Kind, w.h.ID, w.h.Seq))
		}
		return false
	}
	return true
}

var errUseAfterClose = fmt.Errorf("verification harness: segment used after its data was released")

func (w *wseg) Dictionary(field string) (segment.Dictionary, error) {
	if !w.live("Dictionary") {
		return nil, errUseAfterClose
	}
	d, err := w.Segment.Dictionary(field)
	if err != nil || d == nil {
		return d, err
	}
	return &wdict{Dictionary: d, w: w}, nil
}

func (w *wseg) VisitStoredFields(num uint64, visitor segment.StoredFieldVisitor) error {
	if !w.live("VisitStoredFields") {
		return errUseAfterClose
	}
	return w.Segment.VisitStoredFields(num, visitor)
}

func (w *wseg) DocsMatchingTerms(terms []segment.Term) (*roaring.Bitmap, error) {
	if !w.live("DocsMatchingTerms") {
		return nil, errUseAfterClose
	}
	if w.r.Gate != nil {
		p := Point{Name: "docsmatching", Role: Role(), Kind: w.name}
		if len(terms) > 0 {
			p.Kind = w.name + "|" + string(terms[0].Term())
			for _, t := range terms[1:] {
				p.Kind += "," + string(t.Term())
			}
		}
		w.r.Gate(p)
	}
	return w.Segment.DocsMatchingTerms(terms)
}

func (w *wseg) CollectionStats(field string) (segment.CollectionStats, error) {
	if !w.live("CollectionStats") {
		return nil, errUseAfterClose
	}
	return w.Segment.CollectionStats(field)
}

func (w *wseg) DocumentValueReader(fields []string) (segment.DocumentValueReader, error) {
	if !w.live("DocumentValueReader") {
		return nil, errUseAfterClose
	}
	return w.Segment.DocumentValueReader(fields)
}

func (w *wseg) WriteTo(wr io.Writer, closeCh chan struct{}) (int64, error) {
	if !w.live("WriteTo") {
		return 0, errUseAfterClose
	}
	return w.Segment.WriteTo(wr, closeCh)
}

type wdict struct {
	segment.Dictionary
	w *wseg
}

func (d *wdict) PostingsList(term []byte, except *roaring.Bitmap, prealloc segment.PostingsList) (segment.PostingsList, error) {
	if !d.w.live("Dictionary.PostingsList") {
		return nil, errUseAfterClose
	}
	return d.Dictionary.PostingsList(term, except, prealloc)
}

func (d *wdict) Iterator(a segment.Automaton, start, end []byte) segment.DictionaryIterator {
	d.w.live("Dictionary.Iterator")
	return d.Dictionary.Iterator(a, start, end)
}

func (d *wdict) Contains(key []byte) (bool, error) {
	if !d.w.live("Dictionary.Contains") {
		return false, errUseAfterClose
	}
	return d.Dictionary.Contains(key)
}

func (r *RSeg) wrap(s segment.Segment, h *Handle, origin string) *wseg {
	n := atomic.AddInt64(&r.serial, 1)
	return &wseg{Segment: s, r: r, h: h, name: fmt.Sprintf("%s#%d", origin, n)}
}

func unwrapSegs(ss []segment.Segment) ([]segment.Segment, []string) {
	out := make([]segment.Segment, len(ss))
	names := make([]string, len(ss))
	for i, s := range ss {
		if w, ok := s.(*wseg); ok {
			out[i] = w.Segment
			names[i] = w.name
		} else {
			out[i] = s
		}
	}
	return out, names
}

type wmerger struct {
	segment.Merger
	r *RSeg
}

func (m *wmerger) WriteTo(w io.Writer, closeCh chan struct{}) (int64, error) {
	if m.r.Gate != nil {
		m.r.Gate(Point{Name: "merge.write.begin", Role: Role()})
	}
	n, err := m.Merger.WriteTo(w, closeCh)
	if m.r.Gate != nil {
		m.r.Gate(Point{Name: "merge.write.end", Role: Role()})
	}
	return n, err
}

// Merges returns the inputs of every Merge call so far.
func (r *RSeg) Merges() [][]string {
	r.mu.Lock()
	defer r.mu.Unlock()
	return append([][]string(nil), r.merges...)
}

// Plugin returns the wrapping plug-in; it registers under the wrapped plug-in's type and version.
func (r *RSeg) Plugin() *index.SegmentPlugin {
	typ, ver := iceV1.Type, uint32(iceV1.Version)
	newF, loadF, mergeF := iceV1.New, iceV1.Load, iceV1.Merge
	if r.Version == 2 {
		typ, ver = iceV2.Type, uint32(iceV2.Version)
		newF, loadF, mergeF = iceV2.New, iceV2.Load, iceV2.Merge
	}
	return &index.SegmentPlugin{
		Type:    typ,
		Version: ver,
		New: func(results []segment.Document, normCalc func(string, int) float32) (segment.Segment, uint64, error) {
			if r.Gate != nil {
				r.Gate(Point{Name: "seg.new", Role: Role()})
			}
			s, n, err := newF(results, normCalc)
			if err != nil || s == nil {
				return s, n, err
			}
			return r.wrap(s, nil, "mem"), n, nil
		},
		Load: func(d *segment.Data) (segment.Segment, error) {
			var h *Handle
			if r.RDir != nil {
				if rd := r.RDir(); rd != nil {
					h = rd.HandleOf(d)
				}
			}
			s, err := loadF(d)
			if err != nil || s == nil {
				return s, err
			}
			origin := "file"
			if h != nil {
				origin = fmt.Sprintf("file:%d", h.ID)
			}
			return r.wrap(s, h, origin), nil
		},
		Merge: func(ss []segment.Segment, drops []*roaring.Bitmap, bufSize int) segment.Merger {
			in, names := unwrapSegs(ss)
			r.mu.Lock()
			r.merges = append(r.merges, names)
			r.mu.Unlock()
			for _, s := range ss {
				if w, ok := s.(*wseg); ok {
					w.live("Merge(input)")
				}
			}
			if r.Gate != nil {
				r.Gate(Point{Name: "merge.begin", Role: Role(), ID: uint64(len(ss))})
			}
			return &wmerger{Merger: mergeF(in, drops, bufSize), r: r}
		},
	}
}
