//go:build verifyield

package mon

import (
	"math/rand"
	"os"
	"runtime"
	"strconv"
	"sync"
	"sync/atomic"
	"time"

	"github.com/blugelabs/bluge/index"
)

// Built against a yieldify'd copy of the repository (cmd/yieldify): every point between two critical
// sections of package index calls this hook. A seeded choice decides whether the goroutine goes on,
// yields, or sleeps 20 us / 200 us / 1.5 ms. The set of points reached is part of the evidence.

const YieldEnabled = true

var yieldState struct {
	mu    sync.Mutex
	r     *rand.Rand
	hits  map[string]int64
	total int64
	slept int64
}

func init() {
	seed, _ := strconv.ParseInt(os.Getenv("VERIF_SEED"), 10, 64)
	if seed == 0 {
		seed = 1
	}
	yieldState.r = rand.New(rand.NewSource(seed*1000003 + int64(os.Getpid()%1000)))
	yieldState.hits = map[string]int64{}
	index.VerifYieldHook = yieldHook
}

func yieldHook(p string) {
	yieldState.mu.Lock()
	yieldState.hits[p]++
	yieldState.total++
	a := yieldState.r.Intn(64)
	if a >= 58 {
		yieldState.slept++
	}
	yieldState.mu.Unlock()
	switch {
	case a < 46:
	case a < 58:
		runtime.Gosched()
	case a < 62:
		time.Sleep(20 * time.Microsecond)
	case a < 63:
		time.Sleep(200 * time.Microsecond)
	default:
		time.Sleep(1500 * time.Microsecond)
	}
	if g := yieldGate.Load(); g != nil {
		(*g)(p)
	}
}

var yieldGate atomic.Pointer[func(point string)]

// SetYieldGate routes every yield point to a scripted-gate function (one instrumented writer per
// process: child processes of C04 / C15); nil removes it.
func SetYieldGate(f func(point string)) {
	if f == nil {
		yieldGate.Store(nil)
		return
	}
	yieldGate.Store(&f)
}

// YieldStats: distinct yield points reached, calls, calls that slept.
func YieldStats() (points int, calls, slept int64) {
	yieldState.mu.Lock()
	defer yieldState.mu.Unlock()
	return len(yieldState.hits), yieldState.total, yieldState.slept
}
