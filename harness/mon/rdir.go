package mon

import (
	"bytes"
	"crypto/sha1"
	"encoding/hex"
	"fmt"
	"io"
	"os"
	"path/filepath"
	"runtime"
	"strings"
	"sync"

	"github.com/blugelabs/bluge/index"
	segment "github.com/blugelabs/bluge_segment_api"
)

// Role derives the role of the calling goroutine from its stack.
func Role() string {
	buf := make([]byte, 8192)
	n := runtime.Stack(buf, false)
	return roleOfStack(string(buf[:n]))
}

func roleOfStack(s string) string {
	switch {
	case strings.Contains(s, ").mergerLoop"):
		return "merger"
	case strings.Contains(s, ").persisterLoop"):
		return "persister"
	case strings.Contains(s, ").introducerLoop"):
		return "introducer"
	case strings.Contains(s, "index.OpenWriter") || strings.Contains(s, "index.OpenReader"):
		return "opener"
	case strings.Contains(s, "index.(*Writer).Close") || strings.Contains(s, "index.(*Writer).close"):
		return "closer"
	case strings.Contains(s, "index.(*Writer).Batch"):
		return "batch"
	}
	return "other"
}

// Ev is one recorded event of a run: a directory operation or a harness mark.
type Ev struct {
	Seq  int
	Role string `json:",omitempty"`
	Op   string // persist-begin persist-end load load-close remove list lock unlock mark
	Kind string `json:",omitempty"`
	ID   uint64 `json:",omitempty"`
	Err  string `json:",omitempty"`
	// persist-end: bytes the item writer produced (Tee) and, on success, what the real directory left on disk
	Tee  []byte `json:",omitempty"`
	Disk []byte `json:",omitempty"`
	Sha  string `json:",omitempty"`
	Ref  int    `json:",omitempty"` // persist-end: Seq of its persist-begin; load-close: Seq of its load
	// marks
	Tag string `json:",omitempty"`
	N   int    `json:",omitempty"`
}

// Point is a seam point announced to the controller before / after an operation.
type Point struct {
	Name string // e.g. persist.begin persist.end load.begin load.end remove.begin remove.end list lock unlock
	Role string
	Kind string
	ID   uint64
	// Stack is the goroutine's stack text; filled only for points of the yield-instrumented build
	Stack string `json:"-"`
}

// Fault decides whether a directory operation fails. Returning a non-nil FaultSpec
// makes the operation fail as described.
type FaultSpec struct {
	Err        error
	AfterBytes int  // persist: let the item writer produce this many bytes into the real file first (-1: fail before any byte)
	AfterFull  bool // persist: write everything, then fail (the directory's own clean-up runs)
}

// RDir is a recording, gating, fault-injecting index.Directory wrapper.
type RDir struct {
	Inner index.Directory
	Path  string // directory path when Inner is a FileSystemDirectory ("" otherwise)

	mu      sync.Mutex
	evs     []*Ev
	opCount int

	// Gate is called at every seam point (may block). Optional.
	Gate func(p Point)
	// Fault is consulted once per operation, with the operation index. Optional.
	Fault func(opIndex int, p Point) *FaultSpec
	// Observe is called after every completed operation with the event (invariant monitors). Optional.
	Observe func(ev *Ev)

	handles sync.Map // *segment.Data -> *Handle

	// opMu is read-held while an operation modifies the real directory and write-held by
	// Exclusive, so that an invariant monitor can look at a directory no operation is
	// half-way through (operations are atomic for the monitor, as in the trace).
	opMu sync.RWMutex
}

// Exclusive runs f while no Persist / Remove of this directory is in progress.
func (r *RDir) Exclusive(f func()) {
	r.opMu.Lock()
	defer r.opMu.Unlock()
	f()
}

// Handle tracks one Load: opened -> closed exactly once.
type Handle struct {
	Kind   string
	ID     uint64
	Seq    int
	mu     sync.Mutex
	closed int
}

// Closed reports whether the handle was closed.
func (h *Handle) Closed() bool {
	h.mu.Lock()
	defer h.mu.Unlock()
	return h.closed > 0
}

// NewRDir wraps a directory.
func NewRDir(inner index.Directory, path string) *RDir {
	return &RDir{Inner: inner, Path: path}
}

func (r *RDir) add(e *Ev) *Ev {
	r.mu.Lock()
	e.Seq = len(r.evs)
	r.evs = append(r.evs, e)
	r.mu.Unlock()
	return e
}

// Mark adds a harness event to the trace (applied / ack / ...).
func (r *RDir) Mark(tag string, n int) {
	r.add(&Ev{Op: "mark", Tag: tag, N: n})
}

// Events returns a copy of the trace so far.
func (r *RDir) Events() []*Ev {
	r.mu.Lock()
	defer r.mu.Unlock()
	return append([]*Ev(nil), r.evs...)
}

func (r *RDir) gate(name, role, kind string, id uint64) {
	if r.Gate != nil {
		r.Gate(Point{Name: name, Role: role, Kind: kind, ID: id})
	}
}

func (r *RDir) nextOp() int {
	r.mu.Lock()
	defer r.mu.Unlock()
	n := r.opCount
	r.opCount++
	return n
}

// OpCount returns the number of directory operations issued so far.
func (r *RDir) OpCount() int {
	r.mu.Lock()
	defer r.mu.Unlock()
	return r.opCount
}

func (r *RDir) fault(p Point) *FaultSpec {
	idx := r.nextOp()
	if r.Fault != nil {
		return r.Fault(idx, p)
	}
	return nil
}

func errStr(err error) string {
	if err == nil {
		return ""
	}
	return err.Error()
}

func (r *RDir) Setup(readOnly bool) error { return r.Inner.Setup(readOnly) }

func (r *RDir) List(kind string) ([]uint64, error) {
	role := Role()
	r.gate("list", role, kind, 0)
	if f := r.fault(Point{Name: "list", Role: role, Kind: kind}); f != nil {
		e := r.add(&Ev{Role: role, Op: "list", Kind: kind, Err: errStr(f.Err)})
		if r.Observe != nil {
			r.Observe(e)
		}
		return nil, f.Err
	}
	ids, err := r.Inner.List(kind)
	e := r.add(&Ev{Role: role, Op: "list", Kind: kind, Err: errStr(err), N: len(ids)})
	if r.Observe != nil {
		r.Observe(e)
	}
	return ids, err
}

type trackedCloser struct {
	r    *RDir
	h    *Handle
	c    io.Closer
	data *segment.Data
}

func (t *trackedCloser) Close() error {
	t.h.mu.Lock()
	t.h.closed++
	n := t.h.closed
	t.h.mu.Unlock()
	var err error
	if t.c != nil && n == 1 {
		err = t.c.Close()
	}
	e := t.r.add(&Ev{Role: Role(), Op: "load-close", Kind: t.h.Kind, ID: t.h.ID, Ref: t.h.Seq, N: n, Err: errStr(err)})
	if t.r.Observe != nil {
		t.r.Observe(e)
	}
	return err
}

func (r *RDir) Load(kind string, id uint64) (*segment.Data, io.Closer, error) {
	role := Role()
	r.gate("load.begin", role, kind, id)
	if f := r.fault(Point{Name: "load", Role: role, Kind: kind, ID: id}); f != nil {
		e := r.add(&Ev{Role: role, Op: "load", Kind: kind, ID: id, Err: errStr(f.Err)})
		if r.Observe != nil {
			r.Observe(e)
		}
		return nil, nil, f.Err
	}
	data, closer, err := r.Inner.Load(kind, id)
	e := r.add(&Ev{Role: role, Op: "load", Kind: kind, ID: id, Err: errStr(err)})
	if r.Observe != nil {
		r.Observe(e)
	}
	if err != nil {
		return data, closer, err
	}
	h := &Handle{Kind: kind, ID: id, Seq: e.Seq}
	r.handles.Store(data, h)
	r.gate("load.end", role, kind, id)
	return data, &trackedCloser{r: r, h: h, c: closer, data: data}, nil
}

// HandleOf returns the load handle a segment.Data came from.
func (r *RDir) HandleOf(d *segment.Data) *Handle {
	if v, ok := r.handles.Load(d); ok {
		return v.(*Handle)
	}
	return nil
}

type teeWriterTo struct {
	w     index.WriterTo
	tee   bytes.Buffer
	limit int // >= 0: fail after this many bytes
	full  bool
	err   error
	fired bool // the failing Write was really handed to the item writer
}

type limitWriter struct {
	w    io.Writer
	t    *teeWriterTo
	left int
}

func (l *limitWriter) Write(b []byte) (int, error) {
	if l.left >= 0 && len(b) > l.left {
		n, _ := l.w.Write(b[:l.left])
		l.t.tee.Write(b[:n])
		l.left = 0
		l.t.fired = true
		return n, l.t.err
	}
	n, err := l.w.Write(b)
	l.t.tee.Write(b[:n])
	if l.left >= 0 {
		l.left -= n
	}
	return n, err
}

func (t *teeWriterTo) WriteTo(w io.Writer, closeCh chan struct{}) (int64, error) {
	lw := &limitWriter{w: w, t: t, left: t.limit}
	n, err := t.w.WriteTo(lw, closeCh)
	if err == nil && t.full {
		return n, t.err
	}
	if err == nil && t.limit >= 0 && t.err != nil && !t.fired {
		// the item was shorter than the limit, no Write failed: the injected fault still makes this persist fail
		return n, t.err
	}
	// (if a Write did fail and the item writer returns nil all the same, that is passed on faithfully:
	// the directory then reports success for a truncated file, RDir.Persist marks it in the trace)
	return n, err
}

// ReadItem reads an item's bytes back through the inner directory.
func (r *RDir) ReadItem(kind string, id uint64) ([]byte, error) {
	if r.Path != "" {
		// plain read: no flock, so that the observation cannot make a concurrent Remove fail
		return os.ReadFile(filepath.Join(r.Path, FileName(kind, id)))
	}
	data, closer, err := r.Inner.Load(kind, id)
	if err != nil {
		return nil, err
	}
	if data == nil { // the in-memory directory does not keep snapshots
		return nil, nil
	}
	var buf bytes.Buffer
	_, err = data.WriteTo(&buf)
	if closer != nil {
		_ = closer.Close()
	}
	return buf.Bytes(), err
}

func sha(b []byte) string {
	h := sha1.Sum(b)
	return hex.EncodeToString(h[:8])
}

func (r *RDir) Persist(kind string, id uint64, w index.WriterTo, closeCh chan struct{}) error {
	role := Role()
	r.gate("persist.begin", role, kind, id)
	begin := r.add(&Ev{Role: role, Op: "persist-begin", Kind: kind, ID: id})
	tw := &teeWriterTo{w: w, limit: -1}
	if f := r.fault(Point{Name: "persist", Role: role, Kind: kind, ID: id}); f != nil {
		tw.err = f.Err
		switch {
		case f.AfterFull:
			tw.full = true
		case f.AfterBytes >= 0:
			tw.limit = f.AfterBytes
		default:
			e := r.add(&Ev{Role: role, Op: "persist-end", Kind: kind, ID: id, Err: errStr(f.Err), Ref: begin.Seq})
			if r.Observe != nil {
				r.Observe(e)
			}
			r.gate("persist.end", role, kind, id)
			return f.Err
		}
	}
	r.opMu.RLock()
	err := r.Inner.Persist(kind, id, tw, closeCh)
	leftover := int64(-1)
	if err != nil && r.Path != "" {
		// a persist that reports failure must leave nothing under the item's name
		if st, serr := os.Stat(filepath.Join(r.Path, FileName(kind, id))); serr == nil {
			leftover = st.Size()
		}
	}
	r.opMu.RUnlock()
	if leftover >= 0 {
		r.add(&Ev{Role: role, Op: "mark", Tag: "failed-persist-left-file", Kind: kind, ID: id, N: int(leftover)})
	}
	e := &Ev{Role: role, Op: "persist-end", Kind: kind, ID: id, Err: errStr(err), Ref: begin.Seq, Tee: append([]byte(nil), tw.tee.Bytes()...)}
	if err == nil {
		// what did the real directory leave there?
		if disk, rerr := r.ReadItem(kind, id); rerr == nil {
			e.Disk = disk
			e.Sha = sha(disk)
		} else {
			e.Err = "read-back failed: " + rerr.Error()
		}
	}
	r.add(e)
	if tw.fired && err == nil {
		// a Write into the file failed and the persist reported success
		r.add(&Ev{Role: role, Op: "mark", Tag: "write-error-swallowed", Kind: kind, ID: id, N: len(tw.tee.Bytes())})
	}
	if r.Observe != nil {
		r.Observe(e)
	}
	r.gate("persist.end", role, kind, id)
	return err
}

func (r *RDir) Remove(kind string, id uint64) error {
	role := Role()
	r.gate("remove.begin", role, kind, id)
	if f := r.fault(Point{Name: "remove", Role: role, Kind: kind, ID: id}); f != nil {
		e := r.add(&Ev{Role: role, Op: "remove", Kind: kind, ID: id, Err: errStr(f.Err)})
		if r.Observe != nil {
			r.Observe(e)
		}
		return f.Err
	}
	r.opMu.RLock()
	err := r.Inner.Remove(kind, id)
	r.opMu.RUnlock()
	e := r.add(&Ev{Role: role, Op: "remove", Kind: kind, ID: id, Err: errStr(err)})
	if r.Observe != nil {
		r.Observe(e)
	}
	r.gate("remove.end", role, kind, id)
	return err
}

func (r *RDir) Stats() (uint64, uint64) { return r.Inner.Stats() }
func (r *RDir) Sync() error              { return r.Inner.Sync() }

func (r *RDir) Lock() error {
	err := r.Inner.Lock()
	r.add(&Ev{Role: Role(), Op: "lock", Err: errStr(err)})
	return err
}

func (r *RDir) Unlock() error {
	err := r.Inner.Unlock()
	r.add(&Ev{Role: Role(), Op: "unlock", Err: errStr(err)})
	return err
}

// FileName is the file name the file-system directory uses for an item.
func FileName(kind string, id uint64) string { return fmt.Sprintf("%012x", id) + kind }
