//go:build verifoverlay

package mon

import "os"

// OSHooksAvailable reports whether this binary was built with the os overlay.
const OSHooksAvailable = true

// InstallOSHooks installs the observation / fault hooks of the os overlay.
// h is called for write (after), sync, close, truncate (before); wh before each write.
func InstallOSHooks(h func(op, path string, n int64) error, wh func(path string, b []byte) (int, error)) {
	if h == nil {
		os.VerifHook = nil
	} else {
		os.VerifHook = func(op string, f *os.File, n int64) error { return h(op, f.Name(), n) }
	}
	if wh == nil {
		os.VerifWriteHook = nil
	} else {
		os.VerifWriteHook = func(f *os.File, b []byte) (int, error) { return wh(f.Name(), b) }
	}
}
