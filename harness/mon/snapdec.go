package mon

import (
	"bytes"
	"encoding/binary"
	"fmt"
	"hash/crc32"

	"github.com/blugelabs/bluge/index"
)

// DecodeSnapshot decodes a snapshot file image with the real decoder and verifies the CRC trailer.
func DecodeSnapshot(b []byte) ([]index.VerifSegment, error) {
	if len(b) < 4 {
		return nil, fmt.Errorf("snapshot file of %d bytes", len(b))
	}
	body, trailer := b[:len(b)-4], b[len(b)-4:]
	if crc32.ChecksumIEEE(body) != binary.BigEndian.Uint32(trailer) {
		return nil, fmt.Errorf("crc mismatch")
	}
	s := index.VerifNewSnapshot(0, nil)
	var err error
	func() {
		defer func() {
			if r := recover(); r != nil {
				err = fmt.Errorf("decoder panicked: %v", r)
			}
		}()
		var n int64
		n, err = s.ReadFrom(bytes.NewReader(body))
		if err == nil && int(n) != len(body) {
			err = fmt.Errorf("decoder consumed %d of %d bytes", n, len(body))
		}
	}()
	if err != nil {
		return nil, err
	}
	return s.VerifSegments(), nil
}

// DecodeSnapshotSegIDs returns the segment ids a snapshot file refers to.
func DecodeSnapshotSegIDs(b []byte) ([]uint64, error) {
	segs, err := DecodeSnapshot(b)
	if err != nil {
		return nil, err
	}
	ids := make([]uint64, len(segs))
	for i, s := range segs {
		ids[i] = s.ID
	}
	return ids, nil
}
