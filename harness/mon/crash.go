package mon

import (
	"crypto/sha1"
	"encoding/hex"
	"fmt"
	"os"
	"path/filepath"
	"sort"
)

// Image is the directory content a crash at one instant of a trace leaves behind.
type Image struct {
	Pos    int               // the crash happens after the first Pos events of the trace
	Class  string            // boundary | torn-prefix | torn-zero | torn-stale | torn-absent | torn-full
	Desc   string            // which file is torn and how
	Files  map[string][]byte `json:"-"`
	Hash   string
	Acked  int  // highest batch index acknowledged before Pos (-1: none)
	Called int  // highest batch index whose call had started before Pos (-1: none)
	SnapshotCompleted bool // some snapshot persist had completed before Pos
}

// ImageOpts tunes the enumeration.
type ImageOpts struct {
	Initial       map[string][]byte // files present before the trace started (continuation runs)
	AllSnapPrefix bool              // every prefix length of snapshot files (else a boundary set)
	FromPos       int               // only crash points >= FromPos
}

func hashFiles(files map[string][]byte) string {
	names := make([]string, 0, len(files))
	for n := range files {
		names = append(names, n)
	}
	sort.Strings(names)
	h := sha1.New()
	for _, n := range names {
		fmt.Fprintf(h, "%s:%d:", n, len(files[n]))
		h.Write(files[n])
	}
	return hex.EncodeToString(h.Sum(nil)[:10])
}

func cloneFiles(m map[string][]byte) map[string][]byte {
	out := make(map[string][]byte, len(m)+1)
	for k, v := range m {
		out[k] = v
	}
	return out
}

type inflight struct {
	name  string
	kind  string
	final []byte // what the item writer produced in total (known from the persist-end event)
}

// Images enumerates the crash images of a trace: every boundary between events, and for
// every persist in flight at a boundary the torn states of its file. Images are
// de-duplicated by content.
func Images(evs []*Ev, o ImageOpts) []*Image {
	files := cloneFiles(o.Initial)
	// the final bytes of each persist, by begin Seq
	finalOf := map[int][]byte{}
	for _, e := range evs {
		if e.Op == "persist-end" {
			b := e.Tee
			if e.Err == "" && e.Disk != nil {
				b = e.Tee // the attempted content; Disk is judged by the durability monitor
			}
			finalOf[e.Ref] = b
		}
	}
	// every content a file name ever had (for stale tails)
	history := map[string][][]byte{}
	for n, b := range files {
		history[n] = append(history[n], b)
	}
	var out []*Image
	seen := map[string]bool{}
	acked, called := -1, -1
	snapDone := false
	for n := range files {
		if filepath.Ext(n) == ".snp" {
			snapDone = true
		}
	}
	fl := map[int]*inflight{}
	emit := func(pos int, class, desc string, fs map[string][]byte) {
		if pos < o.FromPos {
			return
		}
		h := hashFiles(fs)
		key := fmt.Sprintf("%s|%d|%d|%v", h, acked, called, snapDone)
		if seen[key] {
			return
		}
		seen[key] = true
		out = append(out, &Image{Pos: pos, Class: class, Desc: desc, Files: fs, Hash: h, Acked: acked, Called: called, SnapshotCompleted: snapDone})
	}
	snapshotAt := func(pos int) {
		if len(fl) == 0 {
			emit(pos, "boundary", "", cloneFiles(files))
			return
		}
		// all in-flight files complete / all absent
		full := cloneFiles(files)
		none := cloneFiles(files)
		for _, p := range fl {
			full[p.name] = p.final
			delete(none, p.name)
		}
		emit(pos, "torn-full", "in-flight files completely written", full)
		emit(pos, "torn-absent", "in-flight files absent", none)
		for _, p := range fl {
			base := cloneFiles(none)
			D := p.final
			var lens []int
			if p.kind == ".snp" && o.AllSnapPrefix {
				for k := 0; k <= len(D); k++ {
					lens = append(lens, k)
				}
			} else {
				set := map[int]bool{0: true, 1: true, len(D) / 2: true, len(D) - 1: true, len(D) - 4: true, len(D) - 5: true, len(D): true}
				if p.kind == ".snp" {
					for _, k := range []int{2, 3, len(D) / 4, 3 * len(D) / 4, len(D) - 2, len(D) - 3} {
						set[k] = true
					}
				}
				for k := range set {
					if k >= 0 && k <= len(D) {
						lens = append(lens, k)
					}
				}
				sort.Ints(lens)
			}
			for _, k := range lens {
				fs := cloneFiles(base)
				fs[p.name] = append([]byte(nil), D[:k]...)
				emit(pos, "torn-prefix", fmt.Sprintf("%s holds the first %d of %d bytes", p.name, k, len(D)), fs)
			}
			fs := cloneFiles(base)
			fs[p.name] = make([]byte, len(D))
			emit(pos, "torn-zero", fmt.Sprintf("%s zero-filled, %d bytes", p.name, len(D)), fs)
			// half written, rest zero
			if len(D) > 8 {
				z := make([]byte, len(D))
				copy(z, D[:len(D)/2])
				fs := cloneFiles(base)
				fs[p.name] = z
				emit(pos, "torn-zero", fmt.Sprintf("%s first half written, rest zero", p.name), fs)
			}
			for _, old := range history[p.name] {
				for _, k := range []int{0, 1, len(D) / 2, len(D) - 4, len(D)} {
					if k < 0 || k > len(D) || k >= len(old) {
						continue
					}
					st := append(append([]byte(nil), D[:k]...), old[k:]...)
					fs := cloneFiles(base)
					fs[p.name] = st
					emit(pos, "torn-stale", fmt.Sprintf("%s: first %d new bytes followed by the stale tail of an earlier file of that name (%d bytes)", p.name, k, len(old)), fs)
				}
			}
		}
	}
	snapshotAt(0)
	for i, e := range evs {
		switch e.Op {
		case "persist-begin":
			fl[e.Seq] = &inflight{name: FileName(e.Kind, e.ID), kind: e.Kind, final: finalOf[e.Seq]}
		case "persist-end":
			p := fl[e.Ref]
			delete(fl, e.Ref)
			if p != nil {
				if e.Err == "" {
					content := e.Disk
					if content == nil {
						content = e.Tee
					}
					files[p.name] = content
					history[p.name] = append(history[p.name], content)
					if e.Kind == ".snp" {
						snapDone = true
					}
				} else {
					// the directory reported failure: it removes the file
					delete(files, p.name)
				}
			}
		case "remove":
			if e.Err == "" {
				delete(files, FileName(e.Kind, e.ID))
			}
		case "mark":
			switch e.Tag {
			case "ack":
				if e.N > acked {
					acked = e.N
				}
			case "call":
				if e.N > called {
					called = e.N
				}
			}
		}
		snapshotAt(i + 1)
	}
	return out
}

// Materialize writes an image into a fresh directory.
func (im *Image) Materialize(dir string) error {
	if err := os.MkdirAll(dir, 0o755); err != nil {
		return err
	}
	for n, b := range im.Files {
		if err := os.WriteFile(filepath.Join(dir, n), b, 0o600); err != nil {
			return err
		}
	}
	return nil
}

// ReadDirFiles loads the item files of a directory.
func ReadDirFiles(dir string) (map[string][]byte, error) {
	ents, err := os.ReadDir(dir)
	if err != nil {
		return nil, err
	}
	out := map[string][]byte{}
	for _, e := range ents {
		ext := filepath.Ext(e.Name())
		if e.IsDir() || (ext != ".snp" && ext != ".seg") {
			continue
		}
		b, err := os.ReadFile(filepath.Join(dir, e.Name()))
		if err != nil {
			return nil, err
		}
		out[e.Name()] = b
	}
	return out, nil
}
