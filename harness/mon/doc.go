// Package mon holds the instrumented seams: os hooks (overlay), the recording
// directory, the segment plug-in wrapper, the schedule controller and the
// crash-image builder.
package mon
