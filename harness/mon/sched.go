package mon

import (
	"fmt"
	"math/rand"
	"runtime"
	"sync"
	"time"

	"github.com/blugelabs/bluge/index"
)

// Sched is the schedule controller: seams announce points to it; scenarios hold chosen
// points (scripted gates) and/or let it perturb the schedule with seeded jitter.
type Sched struct {
	mu     sync.Mutex
	holds  []*Hold
	log    []string
	jitter *rand.Rand
	prio   map[string]int // role -> priority (higher = delayed less)
	// Watchdog is the longest a held goroutine stays blocked (then the hold is released and marked timed out).
	Watchdog time.Duration
}

// Hold blocks the n-th point matching a predicate until released.
type Hold struct {
	s        *Sched
	match    func(p Point) bool
	skip     int
	reached  chan struct{}
	release  chan struct{}
	once     sync.Once
	relOnce  sync.Once
	TimedOut bool
	At       Point
	done     bool
}

// NewSched creates a controller; seed 0 = no jitter.
func NewSched(seed int64) *Sched {
	s := &Sched{Watchdog: 8 * time.Second, prio: map[string]int{}}
	if seed != 0 {
		s.jitter = rand.New(rand.NewSource(seed))
		roles := []string{"batch", "introducer", "persister", "merger", "other"}
		for _, r := range roles {
			s.prio[r] = s.jitter.Intn(4)
		}
	}
	return s
}

// HoldNth installs a gate on the (skip+1)-th point matching the predicate.
func (s *Sched) HoldNth(skip int, match func(p Point) bool) *Hold {
	h := &Hold{s: s, match: match, skip: skip, reached: make(chan struct{}), release: make(chan struct{})}
	s.mu.Lock()
	s.holds = append(s.holds, h)
	s.mu.Unlock()
	return h
}

// Reached waits until the gated point was reached (false: not within d).
func (h *Hold) Reached(d time.Duration) bool {
	select {
	case <-h.reached:
		return true
	case <-time.After(d):
		return false
	}
}

// Release lets the held goroutine continue (and disarms the gate if it was never reached).
func (h *Hold) Release() {
	h.relOnce.Do(func() { close(h.release) })
	h.s.mu.Lock()
	h.done = true
	h.s.mu.Unlock()
}

// Log returns the point log (for phase-order signatures).
func (s *Sched) Log() []string {
	s.mu.Lock()
	defer s.mu.Unlock()
	return append([]string(nil), s.log...)
}

// Note adds a harness entry to the point log.
func (s *Sched) Note(what string) {
	s.mu.Lock()
	s.log = append(s.log, what)
	s.mu.Unlock()
}

// GateOnly serves scripted holds at a point of the yield-instrumented build (cmd/yieldify): no log, no
// jitter. Name is "y:<file>:<line>"; the goroutine's role and its stack text (Point.Stack, so that a
// predicate can ask which function the point lies in) are computed only while a hold is armed.
func (s *Sched) GateOnly(name string) {
	s.mu.Lock()
	armed := false
	for _, h := range s.holds {
		if !h.done {
			armed = true
			break
		}
	}
	s.mu.Unlock()
	if !armed {
		return
	}
	buf := make([]byte, 8192)
	st := string(buf[:runtime.Stack(buf, false)])
	p := Point{Name: "y:" + name, Role: roleOfStack(st), Stack: st}
	s.mu.Lock()
	var hit *Hold
	for _, h := range s.holds {
		if h.done || !h.match(p) {
			continue
		}
		if h.skip > 0 {
			h.skip--
			continue
		}
		h.done = true
		h.At = Point{Name: p.Name, Role: p.Role}
		hit = h
		break
	}
	s.mu.Unlock()
	if hit != nil {
		hit.once.Do(func() { close(hit.reached) })
		select {
		case <-hit.release:
		case <-time.After(s.Watchdog):
			hit.TimedOut = true
		}
	}
}

// At is the seam entry: record, maybe hold, maybe perturb.
func (s *Sched) At(p Point) {
	s.mu.Lock()
	if len(s.log) < 20000 {
		s.log = append(s.log, p.Role+":"+p.Name+p.Kind)
	}
	var hit *Hold
	for _, h := range s.holds {
		if h.done || !h.match(p) {
			continue
		}
		if h.skip > 0 {
			h.skip--
			continue
		}
		h.done = true
		h.At = p
		hit = h
		break
	}
	var action int
	if s.jitter != nil && hit == nil {
		action = s.jitter.Intn(16)
		if s.prio[p.Role] >= 2 { // favoured roles are perturbed less
			action /= 2
		}
	}
	s.mu.Unlock()
	if hit != nil {
		hit.once.Do(func() { close(hit.reached) })
		select {
		case <-hit.release:
		case <-time.After(s.Watchdog):
			hit.TimedOut = true
		}
		return
	}
	switch {
	case action < 8:
	case action < 11:
		runtime.Gosched()
	case action < 13:
		time.Sleep(50 * time.Microsecond)
	case action < 15:
		time.Sleep(500 * time.Microsecond)
	default:
		time.Sleep(4 * time.Millisecond)
	}
}

// EventCallback returns an index.Config.EventCallback announcing events as points "ev:<name>".
func (s *Sched) EventCallback() func(index.Event) {
	names := map[int]string{
		index.EventKindCloseStart: "close.start", index.EventKindClose: "close.end",
		index.EventKindMergerProgress: "merger.progress", index.EventKindPersisterProgress: "persister.progress",
		index.EventKindBatchIntroductionStart: "batch.intro.start", index.EventKindBatchIntroduction: "batch.intro.end",
		index.EventKindMergeTaskIntroductionStart: "merge.intro.start", index.EventKindMergeTaskIntroduction: "merge.intro.end",
	}
	return func(e index.Event) {
		n, ok := names[e.Kind]
		if !ok {
			n = fmt.Sprintf("kind%d", e.Kind)
		}
		s.At(Point{Name: "ev:" + n, Role: Role()})
	}
}

// Signature condenses the point log into a phase-order signature: the sequence of
// distinct consecutive (role, point) entries of the background roles.
func (s *Sched) Signature(max int) string {
	s.mu.Lock()
	defer s.mu.Unlock()
	out := ""
	last := ""
	n := 0
	for _, l := range s.log {
		if l == last {
			continue
		}
		last = l
		out += l + ">"
		n++
		if n >= max {
			break
		}
	}
	return out
}
