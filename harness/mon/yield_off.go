//go:build !verifyield

package mon

// YieldEnabled reports whether this binary was built against a yieldify'd copy of the repository.
const YieldEnabled = false

// YieldStats is all zero in the plain build.
func YieldStats() (points int, calls, slept int64) { return 0, 0, 0 }

// SetYieldGate does nothing in the plain build (there are no yield points).
func SetYieldGate(f func(point string)) {}
