module verif/harness

go 1.21

require (
	github.com/RoaringBitmap/roaring v0.9.4
	github.com/anishathalye/porcupine v1.3.0
	github.com/axiomhq/hyperloglog v0.0.0-20191112132149-a4c4c47bc57f
	github.com/blugelabs/bluge v0.0.0
	github.com/blugelabs/bluge_segment_api v0.2.0
	github.com/blugelabs/ice v1.0.0
	github.com/blugelabs/ice/v2 v2.0.1
	github.com/caio/go-tdigest v3.1.0+incompatible
)

replace github.com/blugelabs/bluge => /repo
