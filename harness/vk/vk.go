// Package vk is the shared core of the verification harness: check context,
// evidence and replay writers, known-findings handling, scratch directories.
package vk

import (
	"encoding/json"
	"fmt"
	"math/rand"
	"os"
	"path/filepath"
	"sort"
	"strconv"
	"strings"
	"sync"
	"time"
)

// Root is the /verif directory (where MANIFEST.json lives).
func Root() string {
	if r := os.Getenv("VERIF_ROOT"); r != "" {
		return r
	}
	return "/verif"
}

// Finding is one entry of known_findings.json.
type Finding struct {
	Property string `json:"property"`
	Key      string `json:"key"`
	What     string `json:"what"`
	Status   string `json:"status"` // known | fixed
	Commit   string `json:"commit,omitempty"`
}

type findingsFile struct {
	Findings []Finding `json:"findings"`
}

// Violation is a property violation with its witness.
type Violation struct {
	Key     string      `json:"key"`
	What    string      `json:"what"`
	Witness interface{} `json:"witness,omitempty"`
}

// Ctx collects what a check run observed and decides its exit status.
type Ctx struct {
	Prop  string
	Tier  string
	Seed  int64
	Level string
	Start time.Time

	mu           sync.Mutex
	evals        int64
	distinct     map[string]struct{}
	distinctH    map[uint64]struct{}
	samples      []interface{}
	events       map[string]int64
	inconclusive int64
	inconcl      map[string]int64
	violations   []Violation
	violKeys     map[string]int
	knownHits    map[string]int
	extra        map[string]interface{}
	assumptions  []string
	rule         string
	exhaustive   bool
	known        []Finding
	requirements []requirement
	scratch      string
	replayN      int
	// ReplayMode disables the minimum-observation rules (a replay evaluates one witness).
	ReplayMode bool
}

type requirement struct {
	event string
	min   int64
}

// NewCtx builds the context for one property/tier/seed.
func NewCtx(prop, tier string, seed int64, level string) *Ctx {
	c := &Ctx{
		Prop: prop, Tier: tier, Seed: seed, Level: level, Start: time.Now(),
		distinct:  map[string]struct{}{},
		distinctH: map[uint64]struct{}{},
		events:    map[string]int64{},
		inconcl:   map[string]int64{},
		violKeys:  map[string]int{},
		knownHits: map[string]int{},
		extra:     map[string]interface{}{},
	}
	b, err := os.ReadFile(filepath.Join(Root(), "known_findings.json"))
	if err == nil {
		var ff findingsFile
		if json.Unmarshal(b, &ff) == nil {
			for _, f := range ff.Findings {
				if f.Property == prop {
					c.known = append(c.known, f)
				}
			}
		}
	}
	return c
}

// Quick reports whether this is the quick tier.
func (c *Ctx) Quick() bool { return c.Tier != "thorough" }

// Pick returns q in the quick tier and t in the thorough tier.
func (c *Ctx) Pick(q, t int) int {
	if c.Quick() {
		return q
	}
	if os.Getenv("VERIF_STAGE") == "yield" && t > 2*q {
		// second stage of a thorough run (perturbed schedules are slower): a quarter of the size,
		// but not less than the quick tier's
		if t/4 > q {
			return t / 4
		}
		return q
	}
	return t
}

// Rand returns a PRNG derived from the seed and a stream label.
func (c *Ctx) Rand(stream string) *rand.Rand {
	return rand.New(rand.NewSource(SubSeed(c.Seed, stream)))
}

// SubSeed derives a seed from a seed and a label (FNV-1a).
func SubSeed(seed int64, stream string) int64 {
	h := uint64(14695981039346656037)
	for _, b := range []byte(strconv.FormatInt(seed, 10) + "/" + stream) {
		h ^= uint64(b)
		h *= 1099511628211
	}
	return int64(h & 0x7fffffffffffffff)
}

func (c *Ctx) Eval(n int) {
	c.mu.Lock()
	c.evals += int64(n)
	c.mu.Unlock()
}

// Distinct records one distinct non-trivial case key.
func (c *Ctx) Distinct(key string) {
	c.mu.Lock()
	c.distinct[key] = struct{}{}
	c.mu.Unlock()
}

// DistinctHash records one distinct non-trivial case by 64-bit hash (for large counts).
func (c *Ctx) DistinctHash(h uint64) {
	c.mu.Lock()
	c.distinctH[h] = struct{}{}
	c.mu.Unlock()
}

func (c *Ctx) DistinctCount() int {
	c.mu.Lock()
	defer c.mu.Unlock()
	return len(c.distinct) + len(c.distinctH)
}

// Hash64 is FNV-1a over a string.
func Hash64(s string) uint64 {
	h := uint64(14695981039346656037)
	for i := 0; i < len(s); i++ {
		h ^= uint64(s[i])
		h *= 1099511628211
	}
	return h
}

// Sample keeps up to max samples of actual cases.
func (c *Ctx) Sample(v interface{}) {
	c.mu.Lock()
	if len(c.samples) < 6 {
		c.samples = append(c.samples, v)
	}
	c.mu.Unlock()
}

func (c *Ctx) Event(kind string, n int) {
	c.mu.Lock()
	c.events[kind] += int64(n)
	c.mu.Unlock()
}

func (c *Ctx) EventCount(kind string) int64 {
	c.mu.Lock()
	defer c.mu.Unlock()
	return c.events[kind]
}

// EventMax records the maximum of a gauge.
func (c *Ctx) EventMax(kind string, v int64) {
	c.mu.Lock()
	if v > c.events[kind] {
		c.events[kind] = v
	}
	c.mu.Unlock()
}

// Inconclusive counts a case that could not be decided (timeout, gate not reached).
func (c *Ctx) Inconclusive(kind string) {
	c.mu.Lock()
	c.inconclusive++
	c.inconcl[kind]++
	c.mu.Unlock()
}

func (c *Ctx) Set(key string, v interface{}) {
	c.mu.Lock()
	c.extra[key] = v
	c.mu.Unlock()
}

func (c *Ctx) Rule(r string)       { c.rule = r }
func (c *Ctx) Exhaustive(b bool)   { c.exhaustive = b }
func (c *Ctx) Assume(a ...string)  { c.assumptions = append(c.assumptions, a...) }
func (c *Ctx) Require(ev string, min int64) {
	c.requirements = append(c.requirements, requirement{ev, min})
}

func keyMatches(pattern, key string) bool {
	if strings.HasSuffix(pattern, "*") {
		return strings.HasPrefix(key, strings.TrimSuffix(pattern, "*"))
	}
	return pattern == key
}

// Violate records a violation. key identifies the specific failing input class /
// call site; a key listed as "known" in known_findings.json is reported as a
// KNOWN-FINDING instead of failing the check.
func (c *Ctx) Violate(key, what string, witness interface{}) {
	c.mu.Lock()
	defer c.mu.Unlock()
	for _, f := range c.known {
		if f.Status == "known" && keyMatches(f.Key, key) {
			c.knownHits[f.Key]++
			return
		}
	}
	c.violKeys[key]++
	if c.violKeys[key] > 3 || len(c.violations) >= 40 {
		return
	}
	c.violations = append(c.violations, Violation{Key: key, What: what, Witness: witness})
}

// ViolationCount returns the number of non-known violations recorded so far.
func (c *Ctx) ViolationCount() int {
	c.mu.Lock()
	defer c.mu.Unlock()
	n := 0
	for _, v := range c.violKeys {
		n += v
	}
	return n
}

// Scratch returns a per-run scratch directory (removed by Finish).
func (c *Ctx) Scratch() string {
	c.mu.Lock()
	defer c.mu.Unlock()
	if c.scratch != "" {
		return c.scratch
	}
	base := os.Getenv("VERIF_SCRATCH")
	if base == "" {
		if st, err := os.Stat("/dev/shm"); err == nil && st.IsDir() {
			base = "/dev/shm"
		} else {
			base = os.TempDir()
		}
	}
	d, err := os.MkdirTemp(base, "verif-"+c.Prop+"-")
	if err != nil {
		panic(err)
	}
	c.scratch = d
	return d
}

// TempDir returns a fresh directory under the scratch directory.
func (c *Ctx) TempDir(prefix string) string {
	d, err := os.MkdirTemp(c.Scratch(), prefix)
	if err != nil {
		panic(err)
	}
	return d
}

type evidence struct {
	PropertyID  string                 `json:"property_id"`
	Tier        string                 `json:"tier"`
	Seed        int64                  `json:"seed"`
	Level       string                 `json:"level"`
	Coverage    map[string]interface{} `json:"coverage"`
	Assumptions []string               `json:"assumptions"`
	WallS       float64                `json:"wall_s"`
	Violations  int                    `json:"violations"`
}

// DebugOnly reports whether VERIF_DEBUG_ONLY names this part of a check (development aid: run one
// part of a check alone; never set by the registered commands).
func DebugOnly(part string) bool { return os.Getenv("VERIF_DEBUG_ONLY") == part }

// ExtraCoverage, when set, contributes process-wide monitor counters to every evidence file.
var ExtraCoverage func() map[string]interface{}

// Finish writes evidence and replays, prints verdict lines and returns the exit code:
// 0 held (possibly with known findings), 1 violation, 2 monitor observed too little.
func (c *Ctx) Finish() int {
	c.mu.Lock()
	defer c.mu.Unlock()
	if c.scratch != "" && os.Getenv("VERIF_KEEP_SCRATCH") == "" {
		_ = os.RemoveAll(c.scratch)
	}
	root := Root()
	code := 0
	nviol := 0
	for _, n := range c.violKeys {
		nviol += n
	}
	_ = os.MkdirAll(filepath.Join(root, "replays"), 0o755)
	for i, v := range c.violations {
		p := filepath.Join(root, "replays", fmt.Sprintf("%s-%d-%d.json", c.Prop, c.Seed, i))
		b, _ := json.MarshalIndent(map[string]interface{}{
			"property": c.Prop, "seed": c.Seed, "tier": c.Tier, "key": v.Key, "what": v.What, "witness": v.Witness,
		}, "", " ")
		_ = os.WriteFile(p, b, 0o644)
		fmt.Printf("VIOLATION property=%s replay=%s\n", c.Prop, p)
		fmt.Printf("  key=%s: %s\n", v.Key, v.What)
		code = 1
	}
	if nviol > len(c.violations) {
		fmt.Printf("  (%d further violations not written out; keys: %v)\n", nviol-len(c.violations), c.violKeys)
	}
	var knownKeys []string
	for _, f := range c.known {
		if f.Status != "known" {
			continue
		}
		knownKeys = append(knownKeys, f.Key)
		if n := c.knownHits[f.Key]; n > 0 {
			fmt.Printf("KNOWN-FINDING: property=%s %s [key=%s, seen %d times in this run]\n", c.Prop, f.What, f.Key, n)
		} else {
			fmt.Printf("KNOWN-FINDING: property=%s %s [key=%s, not reproduced by this run]\n", c.Prop, f.What, f.Key)
		}
	}
	// minimum-observation requirements are judged over the whole tier: a later stage adds the events the
	// earlier stage of the same run recorded (what this stage alone lacked is reported in the evidence)
	prevEvents := map[string]int64{}
	if os.Getenv("VERIF_STAGE") != "" && os.Getenv("VERIF_STAGE_MERGE") != "" {
		if pb, err := os.ReadFile(filepath.Join(root, "evidence", c.Prop+".json")); err == nil {
			var prev evidence
			if json.Unmarshal(pb, &prev) == nil && prev.PropertyID == c.Prop && prev.Tier == c.Tier && prev.Seed == c.Seed {
				if pe, ok := prev.Coverage["events"].(map[string]interface{}); ok {
					for k, v := range pe {
						if f, ok := v.(float64); ok {
							prevEvents[k] = int64(f)
						}
					}
				}
			}
		}
	}
	missing := []string{}
	stageMissing := []string{}
	for _, r := range c.requirements {
		if c.events[r.event] < r.min {
			stageMissing = append(stageMissing, fmt.Sprintf("%s=%d<%d", r.event, c.events[r.event], r.min))
		}
		if c.events[r.event]+prevEvents[r.event] < r.min {
			missing = append(missing, fmt.Sprintf("%s=%d<%d", r.event, c.events[r.event]+prevEvents[r.event], r.min))
		}
	}
	if len(stageMissing) > 0 && len(missing) == 0 {
		c.extra["this_stage_below_minimum_observation"] = stageMissing
	}
	if len(c.distinct)+len(c.distinctH) < 2 || c.evals < 1 {
		missing = append(missing, fmt.Sprintf("evaluations=%d distinct=%d", c.evals, len(c.distinct)+len(c.distinctH)))
	}
	if len(missing) > 0 && code == 0 && !c.ReplayMode {
		if os.Getenv("VERIF_MORE_STAGES") != "" {
			// another stage of the same tier follows and adds its observations before this is judged
			fmt.Printf("below the minimum observation so far (judged after the last stage): %v\n", missing)
			c.extra["below_minimum_observation_before_last_stage"] = missing
		} else {
			fmt.Printf("MONITOR-SAW-TOO-LITTLE property=%s %v\n", c.Prop, missing)
			code = 2
		}
	}
	if len(c.samples) == 0 {
		c.samples = append(c.samples, "no sample recorded")
	}
	ev := make(map[string]int64, len(c.events))
	for k, v := range c.events {
		ev[k] = v
	}
	cov := map[string]interface{}{
		"evaluations":         c.evals,
		"distinct_nontrivial": len(c.distinct) + len(c.distinctH),
		"rule":                c.rule,
		"samples":             c.samples,
		"events":              ev,
		"inconclusive":        c.inconclusive,
		"inconclusive_by":     c.inconcl,
		"exhaustive":          c.exhaustive,
		"known_findings_seen": c.knownHits,
		"violation_keys":      c.violKeys,
	}
	for k, v := range c.extra {
		cov[k] = v
	}
	if ExtraCoverage != nil {
		for k, v := range ExtraCoverage() {
			cov[k] = v
		}
	}
	// a tier run in stages (e.g. plain build, then the yield-instrumented build): the later stage carries
	// the earlier stage's coverage along; evaluations add up, distinct cases are NOT added (the stages
	// re-run the same generated cases under other schedules), the larger count is kept
	if st := os.Getenv("VERIF_STAGE"); st != "" {
		cov["stage"] = st
		if pb, err := os.ReadFile(filepath.Join(root, "evidence", c.Prop+".json")); err == nil && os.Getenv("VERIF_STAGE_MERGE") != "" {
			var prev evidence
			if json.Unmarshal(pb, &prev) == nil && prev.PropertyID == c.Prop && prev.Tier == c.Tier && prev.Seed == c.Seed {
				delete(prev.Coverage, "samples")
				delete(prev.Coverage, "rule")
				cov["previous_stage"] = prev.Coverage
				cov["previous_stage_wall_s"] = prev.WallS
				cov["this_stage_evaluations"] = c.evals
				cov["this_stage_distinct_nontrivial"] = len(c.distinct) + len(c.distinctH)
				if pe, ok := prev.Coverage["evaluations"].(float64); ok {
					cov["evaluations"] = c.evals + int64(pe)
				}
				if pd, ok := prev.Coverage["distinct_nontrivial"].(float64); ok && int(pd) > len(c.distinct)+len(c.distinctH) {
					cov["distinct_nontrivial"] = int(pd)
				}
			}
		}
	}
	e := evidence{PropertyID: c.Prop, Tier: c.Tier, Seed: c.Seed, Level: c.Level, Coverage: cov,
		Assumptions: c.assumptions, WallS: time.Since(c.Start).Seconds(), Violations: nviol}
	if e.Assumptions == nil {
		e.Assumptions = []string{}
	}
	b, _ := json.MarshalIndent(e, "", " ")
	_ = os.MkdirAll(filepath.Join(root, "evidence"), 0o755)
	if err := os.WriteFile(filepath.Join(root, "evidence", c.Prop+".json"), b, 0o644); err != nil {
		fmt.Println("cannot write evidence:", err)
		if code == 0 {
			code = 2
		}
	}
	keys := make([]string, 0, len(ev))
	for k := range ev {
		keys = append(keys, k)
	}
	sort.Strings(keys)
	var sb strings.Builder
	for _, k := range keys {
		fmt.Fprintf(&sb, " %s=%d", k, ev[k])
	}
	fmt.Printf("%s %s seed=%d: evaluations=%d distinct=%d inconclusive=%d violations=%d wall=%.1fs\n  events:%s\n",
		c.Prop, c.Tier, c.Seed, c.evals, len(c.distinct)+len(c.distinctH), c.inconclusive, nviol, e.WallS, sb.String())
	return code
}

// JSON renders a value compactly (for keys and samples).
func JSON(v interface{}) string {
	b, _ := json.Marshal(v)
	return string(b)
}
