//go:build !race

package vk

// RaceEnabled reports whether the binary was built with the race detector.
const RaceEnabled = false
