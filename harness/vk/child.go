package vk

import (
	"bufio"
	"encoding/json"
	"fmt"
	"os"
	"os/exec"
	"path/filepath"
	"runtime/debug"
	"strconv"
	"strings"
	"sync"
	"syscall"
	"time"
)

// ChildHandler executes one case inside a child process.
type ChildHandler func(in json.RawMessage) (interface{}, error)

var childHandlers = map[string]ChildHandler{}

// RegisterChild registers a handler executed by "vcheck child <kind> ...".
func RegisterChild(kind string, h ChildHandler) { childHandlers[kind] = h }

// ChildResult is the outcome of one case executed in a child.
type ChildResult struct {
	Index int
	Out   json.RawMessage // handler result (nil when it died/panicked/errored)
	Err   string          // handler returned an error
	Panic string          // recovered panic (message + stack)
	Died  string          // process died while executing this case (tail of its stderr)
	Hung  bool            // the child's watchdog fired during this case, and again when the case was re-run alone
	Reran bool            // the watchdog fired once and the case was run again alone
}

// Faulted reports whether the case panicked or killed the child.
func (r *ChildResult) Faulted() bool { return r.Panic != "" || r.Died != "" }

type childLine struct {
	I     int             `json:"i"`
	Out   json.RawMessage `json:"out,omitempty"`
	Err   string          `json:"err,omitempty"`
	Panic string          `json:"panic,omitempty"`
}

// ChildMain is the entry point of "vcheck child <kind> <infile> <outfile> <rlimitMB>".
func ChildMain(args []string) int {
	if len(args) < 4 {
		fmt.Fprintln(os.Stderr, "usage: child kind in out rlimitMB")
		return 2
	}
	kind, inPath, outPath := args[0], args[1], args[2]
	if mb, _ := strconv.Atoi(args[3]); mb > 0 && !RaceEnabled {
		lim := &syscall.Rlimit{Cur: uint64(mb) << 20, Max: uint64(mb) << 20}
		_ = syscall.Setrlimit(syscall.RLIMIT_AS, lim)
	}
	h, ok := childHandlers[kind]
	if !ok {
		fmt.Fprintln(os.Stderr, "unknown child kind", kind)
		return 2
	}
	in, err := os.Open(inPath)
	if err != nil {
		fmt.Fprintln(os.Stderr, err)
		return 2
	}
	out, err := os.OpenFile(outPath, os.O_CREATE|os.O_WRONLY|os.O_APPEND, 0o644)
	if err != nil {
		fmt.Fprintln(os.Stderr, err)
		return 2
	}
	sc := bufio.NewScanner(in)
	sc.Buffer(make([]byte, 1<<20), 1<<30)
	for sc.Scan() {
		var c struct {
			I  int             `json:"i"`
			In json.RawMessage `json:"in"`
		}
		if err := json.Unmarshal(sc.Bytes(), &c); err != nil {
			fmt.Fprintln(os.Stderr, "bad case line:", err)
			return 2
		}
		// log the case before executing it
		fmt.Fprintf(out, "START %d\n", c.I)
		res := runOne(h, c.In)
		res.I = c.I
		b, _ := json.Marshal(res)
		fmt.Fprintf(out, "DONE %s\n", b)
	}
	_ = out.Close()
	return 0
}

func runOne(h ChildHandler, in json.RawMessage) (res childLine) {
	defer func() {
		if r := recover(); r != nil {
			res.Panic = fmt.Sprintf("%v\n%s", r, debug.Stack())
		}
	}()
	v, err := h(in)
	if err != nil {
		res.Err = err.Error()
		return
	}
	b, err := json.Marshal(v)
	if err != nil {
		res.Err = "marshal: " + err.Error()
		return
	}
	res.Out = b
	return
}

// ChildOpts tunes RunChildren.
type ChildOpts struct {
	PerChild    int           // cases per child process
	Parallel    int           // concurrent children
	CaseTimeout time.Duration // watchdog per case (wall clock; firing => Hung/inconclusive)
	RlimitMB    int           // address-space limit for the child (0 = none)
	Env         []string

	confirming bool // internal: this is the second, solitary run of a case whose watchdog fired
}

// RunChildren executes cases of a registered kind in child processes. Every case is
// logged before it runs, so a case that kills its child is identified and reported;
// the remaining cases continue in a fresh child.
func RunChildren(scratch, kind string, cases []interface{}, o ChildOpts) []ChildResult {
	if o.PerChild <= 0 {
		o.PerChild = 100
	}
	if o.Parallel <= 0 {
		o.Parallel = 8
	}
	if o.CaseTimeout <= 0 {
		o.CaseTimeout = 120 * time.Second
	}
	results := make([]ChildResult, len(cases))
	for i := range results {
		results[i].Index = i
	}
	type chunk struct{ lo, hi int }
	var chunks []chunk
	for lo := 0; lo < len(cases); lo += o.PerChild {
		hi := lo + o.PerChild
		if hi > len(cases) {
			hi = len(cases)
		}
		chunks = append(chunks, chunk{lo, hi})
	}
	ch := make(chan chunk)
	var wg sync.WaitGroup
	for w := 0; w < o.Parallel; w++ {
		wg.Add(1)
		go func(w int) {
			defer wg.Done()
			for c := range ch {
				runChunk(scratch, kind, cases, results, c.lo, c.hi, o, w)
			}
		}(w)
	}
	for _, c := range chunks {
		ch <- c
	}
	close(ch)
	wg.Wait()
	return results
}

func runChunk(scratch, kind string, cases []interface{}, results []ChildResult, lo, hi int, o ChildOpts, w int) {
	next := lo
	attempt := 0
	for next < hi {
		attempt++
		dir, _ := os.MkdirTemp(scratch, "child-")
		inPath := filepath.Join(dir, "in.jsonl")
		outPath := filepath.Join(dir, "out.log")
		errPath := filepath.Join(dir, "stderr.log")
		f, _ := os.Create(inPath)
		bw := bufio.NewWriter(f)
		for i := next; i < hi; i++ {
			b, _ := json.Marshal(map[string]interface{}{"i": i, "in": cases[i]})
			bw.Write(b)
			bw.WriteByte('\n')
		}
		bw.Flush()
		f.Close()
		ef, _ := os.Create(errPath)
		cmd := exec.Command(os.Args[0], "child", kind, inPath, outPath, strconv.Itoa(o.RlimitMB))
		cmd.Stdout = ef
		cmd.Stderr = ef
		cmd.Env = append(os.Environ(), "VERIF_CHILD=1", "GOTRACEBACK=all")
		cmd.Env = append(cmd.Env, o.Env...)
		if err := cmd.Start(); err != nil {
			for i := next; i < hi; i++ {
				results[i].Err = "cannot start child: " + err.Error()
			}
			ef.Close()
			return
		}
		done := make(chan error, 1)
		go func() { done <- cmd.Wait() }()
		// watchdog: progress-based (a new START line must appear within CaseTimeout)
		hung := false
		lastSize := int64(-1)
		lastChange := time.Now()
		tick := time.NewTicker(200 * time.Millisecond)
	WAIT:
		for {
			select {
			case <-done:
				break WAIT
			case <-tick.C:
				st, err := os.Stat(outPath)
				var sz int64
				if err == nil {
					sz = st.Size()
				}
				if sz != lastSize {
					lastSize = sz
					lastChange = time.Now()
				} else if time.Since(lastChange) > o.CaseTimeout {
					hung = true
					_ = cmd.Process.Signal(syscall.SIGQUIT)
					select {
					case <-done:
					case <-time.After(5 * time.Second):
						_ = cmd.Process.Kill()
						<-done
					}
					break WAIT
				}
			}
		}
		tick.Stop()
		ef.Close()
		// parse the progress log
		started := -1
		doneSet := map[int]bool{}
		if ob, err := os.ReadFile(outPath); err == nil {
			for _, line := range strings.Split(string(ob), "\n") {
				if strings.HasPrefix(line, "START ") {
					started, _ = strconv.Atoi(strings.TrimPrefix(line, "START "))
				} else if strings.HasPrefix(line, "DONE ") {
					var cl childLine
					if json.Unmarshal([]byte(strings.TrimPrefix(line, "DONE ")), &cl) == nil {
						results[cl.I].Out = cl.Out
						results[cl.I].Err = cl.Err
						results[cl.I].Panic = cl.Panic
						doneSet[cl.I] = true
					}
				}
			}
		}
		maxDone := next - 1
		for i := range doneSet {
			if i > maxDone {
				maxDone = i
			}
		}
		if maxDone+1 >= hi {
			os.RemoveAll(dir)
			return
		}
		// the child stopped before finishing: the case it had started is the culprit
		culprit := maxDone + 1
		if started >= culprit {
			culprit = started
		}
		eb, _ := os.ReadFile(errPath)
		tail := string(eb)
		if len(tail) > 6000 {
			tail = tail[:3000] + "\n...\n" + tail[len(tail)-3000:]
		}
		if hung && !o.confirming {
			// wall clock is no verdict on a loaded machine: the case is run again, alone, in a fresh child
			// with a watchdog of at least five minutes; Hung is reported only if that run stalls as well
			o2 := o
			o2.confirming = true
			if o2.CaseTimeout < 300*time.Second {
				o2.CaseTimeout = 300 * time.Second
			}
			results[culprit] = ChildResult{Index: culprit, Reran: true}
			runChunk(scratch, kind, cases, results, culprit, culprit+1, o2, w)
			results[culprit].Reran = true
		} else if hung {
			results[culprit].Hung = true
			results[culprit].Died = "watchdog: no progress for " + o.CaseTimeout.String() + " (second run, alone)\n" + tail
		} else {
			results[culprit].Died = "child exited: " + cmd.ProcessState.String() + "\n" + tail
		}
		os.RemoveAll(dir)
		next = culprit + 1
	}
}
