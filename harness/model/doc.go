// Package model is the reference model: abstract documents, the abstract index
// (batch semantics) and an independent evaluator of query meanings.
package model

import (
	"fmt"
	"sort"
	"strings"
	"time"

	"github.com/blugelabs/bluge"
	"github.com/blugelabs/bluge/analysis"
	"github.com/blugelabs/bluge/analysis/token"
	"github.com/blugelabs/bluge/analysis/tokenizer"
)

// Point is a geo point.
type Point struct{ Lon, Lat float64 }

// Doc is an abstract document.
type Doc struct {
	ID   string
	V    string               `json:",omitempty"` // unique version tag (stored)
	Text map[string]string    `json:",omitempty"` // analysed with the harness analyzer (whitespace + lower case)
	Kw   map[string][]string  `json:",omitempty"` // keyword fields (multi-valued)
	Num  map[string][]float64 `json:",omitempty"`
	Date map[string][]int64   `json:",omitempty"` // unix nanoseconds
	Geo  map[string][]Point   `json:",omitempty"`
	Blob map[string]string    `json:",omitempty"` // stored-only fields
}

// Analyzer is the harness-owned analyzer: whitespace tokenizer + lower case filter.
func Analyzer() *analysis.Analyzer {
	return &analysis.Analyzer{
		Tokenizer:    tokenizer.NewWhitespaceTokenizer(),
		TokenFilters: []analysis.TokenFilter{token.NewLowerCaseFilter()},
	}
}

// Tokens is the model's tokenization of a text (matches Analyzer on ASCII words).
func Tokens(text string) []string {
	return strings.Fields(strings.ToLower(text))
}

func sortedKeys(m interface{}) []string {
	var ks []string
	switch mm := m.(type) {
	case map[string]string:
		for k := range mm {
			ks = append(ks, k)
		}
	case map[string][]string:
		for k := range mm {
			ks = append(ks, k)
		}
	case map[string][]float64:
		for k := range mm {
			ks = append(ks, k)
		}
	case map[string][]int64:
		for k := range mm {
			ks = append(ks, k)
		}
	case map[string][]Point:
		for k := range mm {
			ks = append(ks, k)
		}
	}
	sort.Strings(ks)
	return ks
}

// ToBluge builds the bluge document. Field order is deterministic.
func (d *Doc) ToBluge() *bluge.Document {
	bd := bluge.NewDocument(d.ID)
	if d.V != "" {
		bd.AddField(bluge.NewKeywordField("v", d.V).StoreValue())
	}
	an := Analyzer()
	for _, f := range sortedKeys(d.Text) {
		bd.AddField(bluge.NewTextField(f, d.Text[f]).WithAnalyzer(an).StoreValue().SearchTermPositions().HighlightMatches())
	}
	for _, f := range sortedKeys(d.Kw) {
		for _, v := range d.Kw[f] {
			bd.AddField(bluge.NewKeywordField(f, v).StoreValue().Sortable().Aggregatable())
		}
	}
	for _, f := range sortedKeys(d.Num) {
		for _, v := range d.Num[f] {
			bd.AddField(bluge.NewNumericField(f, v).StoreValue().Sortable().Aggregatable())
		}
	}
	for _, f := range sortedKeys(d.Date) {
		for _, v := range d.Date[f] {
			bd.AddField(bluge.NewDateTimeField(f, time.Unix(0, v).UTC()).StoreValue().Sortable().Aggregatable())
		}
	}
	for _, f := range sortedKeys(d.Geo) {
		for _, p := range d.Geo[f] {
			bd.AddField(bluge.NewGeoPointField(f, p.Lon, p.Lat).StoreValue())
		}
	}
	for _, f := range sortedKeys(d.Blob) {
		bd.AddField(bluge.NewStoredOnlyField(f, []byte(d.Blob[f])))
	}
	return bd
}

// Terms returns the set of terms of a field as seen by term-level queries
// (text tokens or keyword values).
func (d *Doc) Terms(field string) []string {
	if field == "_id" {
		return []string{d.ID}
	}
	if t, ok := d.Text[field]; ok {
		return Tokens(t)
	}
	if k, ok := d.Kw[field]; ok {
		return k
	}
	if field == "v" && d.V != "" {
		return []string{d.V}
	}
	return nil
}

// Canon is the canonical string of the stored content of a document (id, version, stored fields).
func (d *Doc) Canon() string {
	var sb strings.Builder
	fmt.Fprintf(&sb, "%s|v=%s", d.ID, d.V)
	for _, f := range sortedKeys(d.Text) {
		fmt.Fprintf(&sb, "|%s=%q", f, d.Text[f])
	}
	for _, f := range sortedKeys(d.Kw) {
		fmt.Fprintf(&sb, "|%s=%q", f, d.Kw[f])
	}
	for _, f := range sortedKeys(d.Num) {
		fmt.Fprintf(&sb, "|%s=%v", f, d.Num[f])
	}
	for _, f := range sortedKeys(d.Date) {
		fmt.Fprintf(&sb, "|%s=%v", f, d.Date[f])
	}
	for _, f := range sortedKeys(d.Geo) {
		fmt.Fprintf(&sb, "|%s=#%d", f, len(d.Geo[f]))
	}
	for _, f := range sortedKeys(d.Blob) {
		fmt.Fprintf(&sb, "|%s=%q", f, d.Blob[f])
	}
	return sb.String()
}

// CanonStored reconstructs the canonical string from stored field values read back
// from the index (field -> values in stored order). Numeric, date and geo values are
// decoded with the public decoders.
func CanonStored(stored map[string][]string, like *Doc) string {
	d := &Doc{}
	if v := stored["_id"]; len(v) > 0 {
		d.ID = v[0]
	}
	if v := stored["v"]; len(v) > 0 {
		d.V = v[0]
	}
	// field kinds are taken from the shape of "like" (the model document with this version)
	if like != nil {
		for f := range like.Text {
			if v := stored[f]; len(v) > 0 {
				if d.Text == nil {
					d.Text = map[string]string{}
				}
				d.Text[f] = v[0]
			}
		}
		for f := range like.Kw {
			if v := stored[f]; len(v) > 0 {
				if d.Kw == nil {
					d.Kw = map[string][]string{}
				}
				d.Kw[f] = v
			}
		}
		for f := range like.Num {
			for _, raw := range stored[f] {
				x, err := bluge.DecodeNumericFloat64([]byte(raw))
				if err != nil {
					x = -12345.678
				}
				if d.Num == nil {
					d.Num = map[string][]float64{}
				}
				d.Num[f] = append(d.Num[f], x)
			}
		}
		for f := range like.Date {
			for _, raw := range stored[f] {
				t, err := bluge.DecodeDateTime([]byte(raw))
				x := t.UnixNano()
				if err != nil {
					x = -1
				}
				if d.Date == nil {
					d.Date = map[string][]int64{}
				}
				d.Date[f] = append(d.Date[f], x)
			}
		}
		for f := range like.Geo {
			if d.Geo == nil {
				d.Geo = map[string][]Point{}
			}
			d.Geo[f] = make([]Point, len(stored[f]))
		}
		for f := range like.Blob {
			if v := stored[f]; len(v) > 0 {
				if d.Blob == nil {
					d.Blob = map[string]string{}
				}
				d.Blob[f] = v[0]
			}
		}
	}
	return d.Canon()
}
