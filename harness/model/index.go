package model

import (
	"sort"
	"strings"

	"github.com/blugelabs/bluge"
	"github.com/blugelabs/bluge/index"
)

// Op is one operation of a batch.
type Op struct {
	Kind string // insert | update | delete
	ID   string `json:",omitempty"` // id named by update/delete
	Doc  *Doc   `json:",omitempty"`
}

// Batch is an abstract batch.
type Batch struct {
	Ops []Op
}

// ToBluge builds the real batch.
func (b *Batch) ToBluge() *index.Batch {
	rb := bluge.NewBatch()
	for _, op := range b.Ops {
		switch op.Kind {
		case "insert":
			rb.Insert(op.Doc.ToBluge())
		case "update":
			rb.Update(bluge.Identifier(op.ID), op.Doc.ToBluge())
		case "delete":
			rb.Delete(bluge.Identifier(op.ID))
		}
	}
	return rb
}

// NamesIDTwice reports whether two operations of the batch name the same id
// (such batches are generated only by the dedicated known-finding probe).
func (b *Batch) NamesIDTwice() bool {
	seen := map[string]bool{}
	for _, op := range b.Ops {
		id := op.ID
		if op.Kind == "insert" {
			id = op.Doc.ID
		}
		if seen[id] {
			return true
		}
		seen[id] = true
		if op.Kind == "update" && op.Doc.ID != op.ID {
			if seen[op.Doc.ID] {
				return true
			}
			seen[op.Doc.ID] = true
		}
	}
	return false
}

// Index is the abstract index: the live documents in arrival order.
type Index struct {
	Docs []*Doc
}

// Apply returns the abstract index after the batch: every live document whose id is
// named by a delete/update is removed, then the batch's documents are added.
func (ix *Index) Apply(b *Batch) *Index {
	del := map[string]bool{}
	for _, op := range b.Ops {
		if op.Kind == "update" || op.Kind == "delete" {
			del[op.ID] = true
		}
	}
	out := &Index{}
	for _, d := range ix.Docs {
		if !del[d.ID] {
			out.Docs = append(out.Docs, d)
		}
	}
	for _, op := range b.Ops {
		if op.Kind == "insert" || op.Kind == "update" {
			out.Docs = append(out.Docs, op.Doc)
		}
	}
	return out
}

// Canon is the canonical form of the index content (sorted multiset of document canons).
func (ix *Index) Canon() string {
	var l []string
	for _, d := range ix.Docs {
		l = append(l, d.Canon())
	}
	sort.Strings(l)
	return strings.Join(l, "\n")
}

// ByV finds the live document with the version tag.
func (ix *Index) ByV(v string) *Doc {
	for _, d := range ix.Docs {
		if d.V == v {
			return d
		}
	}
	return nil
}

// IDs returns the sorted multiset of live ids.
func (ix *Index) IDs() []string {
	var l []string
	for _, d := range ix.Docs {
		l = append(l, d.ID)
	}
	sort.Strings(l)
	return l
}
