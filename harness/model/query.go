package model

import (
	"fmt"
	"math"
	"regexp"
	"strings"
	"time"

	"github.com/blugelabs/bluge"
	"github.com/blugelabs/bluge/numeric"
)

// Tri is a three-valued verdict.
type Tri int8

const (
	No Tri = iota
	Yes
	Unknown // the document is in a class the oracle does not decide (near a geo boundary, ambiguous edit distance)
)

func tri(b bool) Tri {
	if b {
		return Yes
	}
	return No
}

// Q is an abstract query tree.
type Q struct {
	Kind  string // term match matchphrase multiphrase prefix wildcard regexp fuzzy termrange numrange daterange geobox geodist all none bool
	Field string `json:",omitempty"`
	Term  string `json:",omitempty"` // term / prefix / wildcard / regexp / fuzzy term / match text
	And   bool   `json:",omitempty"` // match operator
	Fuzz  int    `json:",omitempty"`
	Pre   int    `json:",omitempty"`
	Slop  int    `json:",omitempty"`

	Phrase [][]string `json:",omitempty"`

	Lo, Hi       string  `json:",omitempty"` // term range ("" = open)
	Min, Max     float64 `json:",omitempty"` // numeric range (Inf = open)
	IMin, IMax   int64   `json:",omitempty"` // date range
	OpenMin      bool    `json:",omitempty"`
	OpenMax      bool    `json:",omitempty"`
	IncMin       bool    `json:",omitempty"`
	IncMax       bool    `json:",omitempty"`
	MinLon       float64 `json:",omitempty"`
	MaxLon       float64 `json:",omitempty"`
	MinLat       float64 `json:",omitempty"`
	MaxLat       float64 `json:",omitempty"`
	CLon, CLat   float64 `json:",omitempty"`
	DistM        float64 `json:",omitempty"`
	Must         []*Q    `json:",omitempty"`
	Should       []*Q    `json:",omitempty"`
	MustNot      []*Q    `json:",omitempty"`
	MinShould    int     `json:",omitempty"`
	Boost        float64 `json:",omitempty"` // 0 = unset
	NoBoostField bool    `json:"-"`
}

func (q *Q) String() string {
	switch q.Kind {
	case "term":
		return q.Field + ":" + q.Term
	case "all":
		return "*"
	case "none":
		return "0"
	case "bool":
		f := func(l []*Q) string {
			var s []string
			for _, c := range l {
				s = append(s, c.String())
			}
			return strings.Join(s, " ")
		}
		return fmt.Sprintf("(+[%s] ?[%s]>=%d -[%s])", f(q.Must), f(q.Should), q.MinShould, f(q.MustNot))
	case "match":
		op := "or"
		if q.And {
			op = "and"
		}
		return fmt.Sprintf("match(%s:%q %s fz=%d pre=%d)", q.Field, q.Term, op, q.Fuzz, q.Pre)
	case "matchphrase":
		return fmt.Sprintf("matchphrase(%s:%q~%d)", q.Field, q.Term, q.Slop)
	case "multiphrase":
		return fmt.Sprintf("multiphrase(%s:%v~%d)", q.Field, q.Phrase, q.Slop)
	case "fuzzy":
		return fmt.Sprintf("fuzzy(%s:%s fz=%d pre=%d)", q.Field, q.Term, q.Fuzz, q.Pre)
	case "termrange":
		return fmt.Sprintf("termrange(%s:%q..%q %v %v)", q.Field, q.Lo, q.Hi, q.IncMin, q.IncMax)
	case "numrange":
		return fmt.Sprintf("numrange(%s:%v..%v %v %v)", q.Field, q.Min, q.Max, q.IncMin, q.IncMax)
	case "daterange":
		return fmt.Sprintf("daterange(%s:%d(open=%v)..%d(open=%v) %v %v)", q.Field, q.IMin, q.OpenMin, q.IMax, q.OpenMax, q.IncMin, q.IncMax)
	case "geobox":
		return fmt.Sprintf("geobox(%s: lon[%v,%v] lat[%v,%v])", q.Field, q.MinLon, q.MaxLon, q.MinLat, q.MaxLat)
	case "geodist":
		return fmt.Sprintf("geodist(%s: (%v,%v) %vm)", q.Field, q.CLon, q.CLat, q.DistM)
	}
	return fmt.Sprintf("%s(%s:%s)", q.Kind, q.Field, q.Term)
}

// Shape is the structural class of a query (kinds only), used for distinct counting.
func (q *Q) Shape() string {
	if q.Kind != "bool" {
		return q.Kind
	}
	f := func(l []*Q) string {
		var s []string
		for _, c := range l {
			s = append(s, c.Shape())
		}
		return strings.Join(s, ",")
	}
	return fmt.Sprintf("b(+%s?%s>=%d-%s)", f(q.Must), f(q.Should), q.MinShould, f(q.MustNot))
}

// Depth of the tree.
func (q *Q) Depth() int {
	d := 0
	for _, l := range [][]*Q{q.Must, q.Should, q.MustNot} {
		for _, c := range l {
			if cd := c.Depth(); cd > d {
				d = cd
			}
		}
	}
	return d + 1
}

// ToBluge builds the real query.
func (q *Q) ToBluge() bluge.Query {
	b := q.Boost
	switch q.Kind {
	case "term":
		x := bluge.NewTermQuery(q.Term).SetField(q.Field)
		if b != 0 {
			x.SetBoost(b)
		}
		return x
	case "match":
		x := bluge.NewMatchQuery(q.Term).SetField(q.Field).SetAnalyzer(Analyzer())
		if q.And {
			x.SetOperator(bluge.MatchQueryOperatorAnd)
		}
		if q.Fuzz != 0 {
			x.SetFuzziness(q.Fuzz)
			x.SetPrefix(q.Pre)
		}
		if b != 0 {
			x.SetBoost(b)
		}
		return x
	case "matchphrase":
		x := bluge.NewMatchPhraseQuery(q.Term).SetField(q.Field).SetAnalyzer(Analyzer()).SetSlop(q.Slop)
		if b != 0 {
			x.SetBoost(b)
		}
		return x
	case "multiphrase":
		x := bluge.NewMultiPhraseQuery(q.Phrase).SetField(q.Field).SetSlop(q.Slop)
		if b != 0 {
			x.SetBoost(b)
		}
		return x
	case "prefix":
		x := bluge.NewPrefixQuery(q.Term).SetField(q.Field)
		if b != 0 {
			x.SetBoost(b)
		}
		return x
	case "wildcard":
		x := bluge.NewWildcardQuery(q.Term).SetField(q.Field)
		if b != 0 {
			x.SetBoost(b)
		}
		return x
	case "regexp":
		x := bluge.NewRegexpQuery(q.Term).SetField(q.Field)
		if b != 0 {
			x.SetBoost(b)
		}
		return x
	case "fuzzy":
		x := bluge.NewFuzzyQuery(q.Term).SetField(q.Field).SetFuzziness(q.Fuzz).SetPrefix(q.Pre)
		if b != 0 {
			x.SetBoost(b)
		}
		return x
	case "termrange":
		x := bluge.NewTermRangeInclusiveQuery(q.Lo, q.Hi, q.IncMin, q.IncMax).SetField(q.Field)
		if b != 0 {
			x.SetBoost(b)
		}
		return x
	case "numrange":
		x := bluge.NewNumericRangeInclusiveQuery(q.Min, q.Max, q.IncMin, q.IncMax).SetField(q.Field)
		if b != 0 {
			x.SetBoost(b)
		}
		return x
	case "daterange":
		var s, e time.Time
		if !q.OpenMin {
			s = time.Unix(0, q.IMin).UTC()
		}
		if !q.OpenMax {
			e = time.Unix(0, q.IMax).UTC()
		}
		x := bluge.NewDateRangeInclusiveQuery(s, e, q.IncMin, q.IncMax).SetField(q.Field)
		if b != 0 {
			x.SetBoost(b)
		}
		return x
	case "geobox":
		x := bluge.NewGeoBoundingBoxQuery(q.MinLon, q.MaxLat, q.MaxLon, q.MinLat).SetField(q.Field)
		if b != 0 {
			x.SetBoost(b)
		}
		return x
	case "geodist":
		x := bluge.NewGeoDistanceQuery(q.CLon, q.CLat, fmt.Sprintf("%fm", q.DistM)).SetField(q.Field)
		if b != 0 {
			x.SetBoost(b)
		}
		return x
	case "all":
		x := bluge.NewMatchAllQuery()
		if b != 0 {
			x.SetBoost(b)
		}
		return x
	case "none":
		return bluge.NewMatchNoneQuery()
	case "bool":
		x := bluge.NewBooleanQuery()
		for _, c := range q.Must {
			x.AddMust(c.ToBluge())
		}
		for _, c := range q.Should {
			x.AddShould(c.ToBluge())
		}
		for _, c := range q.MustNot {
			x.AddMustNot(c.ToBluge())
		}
		x.SetMinShould(q.MinShould)
		if b != 0 {
			x.SetBoost(b)
		}
		return x
	}
	panic("unknown query kind " + q.Kind)
}

func anyTerm(d *Doc, field string, pred func(t string) Tri) Tri {
	res := No
	for _, t := range d.Terms(field) {
		switch pred(t) {
		case Yes:
			return Yes
		case Unknown:
			res = Unknown
		}
	}
	return res
}

// OSA is the restricted Damerau-Levenshtein (optimal string alignment) distance on runes.
func OSA(a, b string) int {
	ra, rb := []rune(a), []rune(b)
	d := make([][]int, len(ra)+1)
	for i := range d {
		d[i] = make([]int, len(rb)+1)
		d[i][0] = i
	}
	for j := range d[0] {
		d[0][j] = j
	}
	for i := 1; i <= len(ra); i++ {
		for j := 1; j <= len(rb); j++ {
			c := 1
			if ra[i-1] == rb[j-1] {
				c = 0
			}
			m := d[i-1][j] + 1
			if v := d[i][j-1] + 1; v < m {
				m = v
			}
			if v := d[i-1][j-1] + c; v < m {
				m = v
			}
			if i > 1 && j > 1 && ra[i-1] == rb[j-2] && ra[i-2] == rb[j-1] {
				if v := d[i-2][j-2] + 1; v < m {
					m = v
				}
			}
			d[i][j] = m
		}
	}
	return d[len(ra)][len(rb)]
}

// DL is the unrestricted Damerau-Levenshtein distance on runes.
func DL(a, b string) int {
	ra, rb := []rune(a), []rune(b)
	da := map[rune]int{}
	maxd := len(ra) + len(rb)
	d := make([][]int, len(ra)+2)
	for i := range d {
		d[i] = make([]int, len(rb)+2)
	}
	d[0][0] = maxd
	for i := 0; i <= len(ra); i++ {
		d[i+1][0] = maxd
		d[i+1][1] = i
	}
	for j := 0; j <= len(rb); j++ {
		d[0][j+1] = maxd
		d[1][j+1] = j
	}
	for i := 1; i <= len(ra); i++ {
		db := 0
		for j := 1; j <= len(rb); j++ {
			k := da[rb[j-1]]
			l := db
			cost := 1
			if ra[i-1] == rb[j-1] {
				cost = 0
				db = j
			}
			m := d[i][j] + cost
			if v := d[i+1][j] + 1; v < m {
				m = v
			}
			if v := d[i][j+1] + 1; v < m {
				m = v
			}
			if v := d[k][l] + (i - k - 1) + 1 + (j - l - 1); v < m {
				m = v
			}
			d[i+1][j+1] = m
		}
		da[ra[i-1]] = i
	}
	return d[len(ra)+1][len(rb)+1]
}

func fuzzyPred(term string, fz, pre int) func(t string) Tri {
	return func(t string) Tri {
		p := term
		if pre < len(p) {
			p = p[:pre]
		}
		if pre > 0 && !strings.HasPrefix(t, p) {
			return No
		}
		o, u := OSA(term, t), DL(term, t)
		if (o <= fz) != (u <= fz) {
			return Unknown // restricted and unrestricted edit distance disagree: not decided
		}
		return tri(o <= fz)
	}
}

// PhraseMatch decides a (multi-)phrase with slop over 1-based token positions.
func PhraseMatch(tokens []string, phrase [][]string, slop int) bool {
	type occ struct {
		term string
		pos  int
	}
	var rec func(i, prev, rem int, used []occ) bool
	rec = func(i, prev, rem int, used []occ) bool {
		if i == len(phrase) {
			return true
		}
		car := phrase[i]
		if len(car) == 0 || (len(car) == 1 && car[0] == "") {
			np := prev + 1
			if prev == 0 {
				np = 0
			}
			return rec(i+1, np, rem, used)
		}
		for _, t := range car {
			for p, tok := range tokens {
				pos := p + 1
				if tok != t {
					continue
				}
				dist := 0
				if prev != 0 {
					dist = prev + 1 - pos
					if dist < 0 {
						dist = -dist
					}
				}
				if prev != 0 && rem-dist < 0 {
					continue
				}
				dup := false
				for _, u := range used {
					if u.term == t && u.pos == pos {
						dup = true
					}
				}
				if dup {
					continue
				}
				if rec(i+1, pos, rem-dist, append(used, occ{t, pos})) {
					return true
				}
			}
		}
		return false
	}
	return rec(0, 0, slop, nil)
}

// Haversine distance in metres (mean earth radius).
func Haversine(lon1, lat1, lon2, lat2 float64) float64 {
	const R = 6371008.7714
	p1, p2 := lat1*math.Pi/180, lat2*math.Pi/180
	dp, dl := (lat2-lat1)*math.Pi/180, (lon2-lon1)*math.Pi/180
	a := math.Sin(dp/2)*math.Sin(dp/2) + math.Cos(p1)*math.Cos(p2)*math.Sin(dl/2)*math.Sin(dl/2)
	return 2 * R * math.Asin(math.Min(1, math.Sqrt(a)))
}

// Eval decides whether the document matches the query's documented meaning.
func (q *Q) Eval(d *Doc) Tri {
	switch q.Kind {
	case "all":
		return Yes
	case "none":
		return No
	case "term":
		return anyTerm(d, q.Field, func(t string) Tri { return tri(t == q.Term) })
	case "prefix":
		return anyTerm(d, q.Field, func(t string) Tri { return tri(strings.HasPrefix(t, q.Term)) })
	case "wildcard":
		var sb strings.Builder
		sb.WriteString("^(?s:")
		for _, r := range q.Term {
			switch r {
			case '*':
				sb.WriteString(".*")
			case '?':
				sb.WriteString(".")
			default:
				sb.WriteString(regexp.QuoteMeta(string(r)))
			}
		}
		sb.WriteString(")$")
		re := regexp.MustCompile(sb.String())
		return anyTerm(d, q.Field, func(t string) Tri { return tri(re.MatchString(t)) })
	case "regexp":
		re := regexp.MustCompile("^(?:" + q.Term + ")$")
		return anyTerm(d, q.Field, func(t string) Tri { return tri(re.MatchString(t)) })
	case "fuzzy":
		return anyTerm(d, q.Field, fuzzyPred(q.Term, q.Fuzz, q.Pre))
	case "match":
		toks := Tokens(q.Term)
		if len(toks) == 0 {
			return No
		}
		nYes, nUnk := 0, 0
		for _, tk := range toks {
			var r Tri
			if q.Fuzz != 0 {
				r = anyTerm(d, q.Field, fuzzyPred(tk, q.Fuzz, q.Pre))
			} else {
				tk := tk
				r = anyTerm(d, q.Field, func(t string) Tri { return tri(t == tk) })
			}
			switch r {
			case Yes:
				nYes++
			case Unknown:
				nUnk++
			}
		}
		need := 1
		if q.And {
			need = len(toks)
		}
		if nYes >= need {
			return Yes
		}
		if nYes+nUnk >= need {
			return Unknown
		}
		return No
	case "matchphrase":
		toks := Tokens(q.Term)
		if len(toks) == 0 {
			return No
		}
		ph := make([][]string, len(toks))
		for i, t := range toks {
			ph[i] = []string{t}
		}
		text, ok := d.Text[q.Field]
		if !ok {
			return No
		}
		return tri(PhraseMatch(Tokens(text), ph, q.Slop))
	case "multiphrase":
		text, ok := d.Text[q.Field]
		if !ok {
			return No
		}
		return tri(PhraseMatch(Tokens(text), q.Phrase, q.Slop))
	case "termrange":
		if q.Lo != "" && q.Hi != "" && (q.Lo > q.Hi || (q.Lo == q.Hi && !(q.IncMin && q.IncMax))) {
			return No // inverted or degenerate interval: empty
		}
		return anyTerm(d, q.Field, func(t string) Tri {
			okLo := q.Lo == "" || t > q.Lo || (q.IncMin && t == q.Lo)
			okHi := q.Hi == "" || t < q.Hi || (q.IncMax && t == q.Hi)
			return tri(okLo && okHi)
		})
	case "numrange":
		for _, v := range d.Num[q.Field] {
			vi := numeric.Float64ToInt64(v)
			okLo := math.IsInf(q.Min, -1)
			if !okLo && !math.IsInf(q.Min, 1) {
				a := numeric.Float64ToInt64(q.Min)
				okLo = vi > a || (q.IncMin && vi == a)
			}
			okHi := math.IsInf(q.Max, 1)
			if !okHi && !math.IsInf(q.Max, -1) {
				b := numeric.Float64ToInt64(q.Max)
				okHi = vi < b || (q.IncMax && vi == b)
			}
			if okLo && okHi {
				return Yes
			}
		}
		return No
	case "daterange":
		for _, v := range d.Date[q.Field] {
			okLo := q.OpenMin || v > q.IMin || (q.IncMin && v == q.IMin)
			okHi := q.OpenMax || v < q.IMax || (q.IncMax && v == q.IMax)
			if okLo && okHi {
				return Yes
			}
		}
		return No
	case "geobox":
		res := No
		cross := q.MinLon > q.MaxLon
		w, h := q.MaxLon-q.MinLon, q.MaxLat-q.MinLat
		if cross {
			w += 360
		}
		tolLon := 1e-3*math.Max(w, 1e-3) + 2e-6
		tolLat := 1e-3*math.Max(h, 1e-3) + 2e-6
		for _, p := range d.Geo[q.Field] {
			inLon := p.Lon >= q.MinLon && p.Lon <= q.MaxLon
			if cross {
				inLon = p.Lon >= q.MinLon || p.Lon <= q.MaxLon
			}
			in := inLon && p.Lat >= q.MinLat && p.Lat <= q.MaxLat
			near := math.Abs(p.Lon-q.MinLon) < tolLon || math.Abs(p.Lon-q.MaxLon) < tolLon ||
				math.Abs(p.Lat-q.MinLat) < tolLat || math.Abs(p.Lat-q.MaxLat) < tolLat ||
				math.Abs(math.Abs(p.Lon)-180) < tolLon
			if near {
				if res == No {
					res = Unknown
				}
				continue
			}
			if in {
				return Yes
			}
		}
		return res
	case "geodist":
		res := No
		for _, p := range d.Geo[q.Field] {
			dist := Haversine(q.CLon, q.CLat, p.Lon, p.Lat)
			// the query does not document its earth model: a point is decided only when every
			// sphere between the polar and the equatorial radius puts it on the same side of
			// the threshold, with the relative 1e-3 margin on top
			lo := dist * (6356752.3 / 6371008.7714) * (1 - 1e-3)
			hi := dist * (6378137.0 / 6371008.7714) * (1 + 1e-3)
			if q.DistM > lo-1 && q.DistM < hi+1 {
				if res == No {
					res = Unknown
				}
				continue
			}
			if dist <= q.DistM {
				return Yes
			}
		}
		return res
	case "bool":
		if len(q.Must)+len(q.Should)+len(q.MustNot) == 0 {
			return No
		}
		res := Yes
		for _, c := range q.Must {
			switch c.Eval(d) {
			case No:
				return No
			case Unknown:
				res = Unknown
			}
		}
		for _, c := range q.MustNot {
			switch c.Eval(d) {
			case Yes:
				return No
			case Unknown:
				res = Unknown
			}
		}
		if len(q.Should) == 0 {
			return res
		}
		nYes, nUnk := 0, 0
		for _, c := range q.Should {
			switch c.Eval(d) {
			case Yes:
				nYes++
			case Unknown:
				nUnk++
			}
		}
		need := q.MinShould
		if len(q.Must) == 0 && need < 1 {
			need = 1
		}
		if nYes >= need {
			return res
		}
		if nYes+nUnk >= need {
			return Unknown
		}
		return No
	}
	panic("unknown query kind " + q.Kind)
}
