package model

import (
	"fmt"
	"math"
	"math/rand"

	"github.com/blugelabs/bluge/numeric"
)

// Vocab is a small vocabulary over a tiny alphabet, so that terms collide under
// prefix, wildcard, regexp, fuzzy and range queries.
type Vocab struct {
	Words []string
}

// GenVocab makes n distinct words of 1..4 letters over "abc".
func GenVocab(r *rand.Rand, n int) *Vocab {
	seen := map[string]bool{}
	v := &Vocab{}
	for len(v.Words) < n {
		l := 1 + r.Intn(4)
		b := make([]byte, l)
		for i := range b {
			b[i] = "abc"[r.Intn(3)]
		}
		if !seen[string(b)] {
			seen[string(b)] = true
			v.Words = append(v.Words, string(b))
		}
	}
	return v
}

func (v *Vocab) Word(r *rand.Rand) string { return v.Words[r.Intn(len(v.Words))] }

// AnyWord returns a vocabulary word most of the time, otherwise a random near-word.
func (v *Vocab) AnyWord(r *rand.Rand) string {
	if r.Intn(4) != 0 {
		return v.Word(r)
	}
	l := 1 + r.Intn(4)
	b := make([]byte, l)
	for i := range b {
		b[i] = "abcd"[r.Intn(4)]
	}
	return string(b)
}

// NumPool is a set of numeric values concentrated on encoding boundaries, chosen so
// that range queries between them never hit the pathological enumeration of C10's
// known finding unless asked for.
var NumPool = []float64{-1e15, -256, -17, -16, -15, -3, -2, -1.5, -1, -0.5, -0.1, math.Copysign(0, -1), 0,
	math.SmallestNonzeroFloat64, 0.1, 0.5, 1, 1.5, 2, 3, 15, 16, 17, 255, 256, 1e15, math.MaxFloat64, -math.MaxFloat64}

// DatePool holds nanosecond instants around byte / precision-step boundaries.
// Negative instants are far from the epoch: a range that straddles 1970-01-01 narrowly is in the class of
// C10's known finding (byte-wise enumeration blow-up) and is judged there.
var DatePool = []int64{-(1 << 55) - 1, -(1 << 55), 0, 1, 15, 16, 17, 127, 128, 4095, 4096, 1 << 28, 1<<28 + 1, 1 << 35, 1 << 42, 1 << 55, 1600000000000000000, 1600000000000000001}

// numEndPool are the numeric range end points used by generated queries (NumPool without the
// immediate neighbours of zero, for the same reason).
var numEndPool = []float64{-1e15, -256, -17, -16, -15, -3, -2, -1.5, -1, -0.5, -0.1, 0, 0.1, 0.5, 1, 1.5, 2, 3, 15, 16, 17, 255, 256, 1e15, math.MaxFloat64, -math.MaxFloat64}

// CorpusOpts tunes corpus generation.
type CorpusOpts struct {
	MaxDocs    int
	Geo        bool
	MultiValue bool
}

// Corpus is a generated corpus: the batches that build it (one segment per batch with
// documents), and the resulting abstract index.
type Corpus struct {
	Vocab   *Vocab
	Batches []*Batch
	Final   *Index
	GeoCX   float64
	GeoCY   float64
	GeoSpr  float64
}

var vcounter int

// GenDoc makes a document with the given id.
func GenDoc(r *rand.Rand, v *Vocab, id, ver string, co *Corpus, opts CorpusOpts) *Doc {
	d := &Doc{ID: id, V: ver}
	nt := r.Intn(9)
	if nt > 0 || r.Intn(3) == 0 {
		s := ""
		for i := 0; i < nt; i++ {
			if i > 0 {
				s += " "
			}
			s += v.Word(r)
		}
		d.Text = map[string]string{"t": s}
	}
	if r.Intn(3) == 0 {
		s := ""
		for i := 0; i < 1+r.Intn(4); i++ {
			if i > 0 {
				s += " "
			}
			s += v.Word(r)
		}
		if d.Text == nil {
			d.Text = map[string]string{}
		}
		d.Text["u"] = s
	}
	if r.Intn(4) != 0 {
		nk := 1
		if opts.MultiValue && r.Intn(3) == 0 {
			nk = 2
		}
		seen := map[string]bool{}
		for i := 0; i < nk; i++ {
			w := v.Word(r)
			if !seen[w] {
				seen[w] = true
				if d.Kw == nil {
					d.Kw = map[string][]string{}
				}
				d.Kw["k"] = append(d.Kw["k"], w)
			}
		}
	}
	if r.Intn(4) != 0 {
		nn := 1
		if opts.MultiValue && r.Intn(3) == 0 {
			nn = 2
		}
		seen := map[float64]bool{}
		for i := 0; i < nn; i++ {
			x := NumPool[r.Intn(len(NumPool))]
			if r.Intn(4) == 0 {
				x = float64(r.Intn(40) - 20)
			}
			if !seen[x] {
				seen[x] = true
				if d.Num == nil {
					d.Num = map[string][]float64{}
				}
				d.Num["n"] = append(d.Num["n"], x)
			}
		}
	}
	if r.Intn(3) != 0 {
		d.Date = map[string][]int64{"d": {DatePool[r.Intn(len(DatePool))]}}
	}
	if opts.Geo && r.Intn(3) != 0 {
		p := Point{co.GeoCX + (r.Float64()*2-1)*co.GeoSpr, co.GeoCY + (r.Float64()*2-1)*co.GeoSpr/2}
		for p.Lon > 180 {
			p.Lon -= 360
		}
		for p.Lon < -180 {
			p.Lon += 360
		}
		p.Lat = math.Max(-90, math.Min(90, p.Lat))
		switch r.Intn(16) {
		case 0:
			p.Lon = 180
		case 1:
			p.Lon = -180
		case 2:
			p.Lat = 90
		case 3:
			p.Lat = -90
		}
		d.Geo = map[string][]Point{"g": {p}}
	}
	if r.Intn(5) == 0 {
		d.Blob = map[string]string{"blob": fmt.Sprintf("blob-%s-%d", id, r.Intn(1000))}
	}
	return d
}

// GenCorpus builds a corpus in several batches with updates and deletes interleaved,
// so that the resulting index has several segments with pending deletions.
func GenCorpus(r *rand.Rand, opts CorpusOpts) *Corpus {
	co := &Corpus{Vocab: GenVocab(r, 3+r.Intn(6))}
	co.GeoCX, co.GeoCY = r.Float64()*360-180, r.Float64()*170-85
	co.GeoSpr = []float64{0.01, 1, 30, 180}[r.Intn(4)]
	if !GeoHeavy && co.GeoSpr == 180 && r.Intn(4) != 0 {
		co.GeoSpr = 5 // world-wide spreads (boxes hundreds of degrees wide) are kept rare outside the thorough tier
	}
	if opts.Geo && r.Intn(3) == 0 {
		// a third of the geo corpora straddle the antimeridian: points and query centres on both sides of +-180
		co.GeoCX = 180 - (r.Float64()*2-1)*co.GeoSpr/4
		if co.GeoCX > 180 {
			co.GeoCX -= 360
		}
		if r.Intn(3) == 0 {
			co.GeoCY = (r.Float64()*2 - 1) * 20 // and some of those near the equator, where a degree is widest
		}
	}
	nd := 1 + r.Intn(opts.MaxDocs)
	if r.Intn(40) == 0 {
		nd = 0
	}
	ix := &Index{}
	cur := &Batch{}
	ver := 0
	flush := func() {
		if len(cur.Ops) > 0 {
			co.Batches = append(co.Batches, cur)
			ix = ix.Apply(cur)
			cur = &Batch{}
		}
	}
	named := map[string]bool{}
	for i := 0; i < nd; i++ {
		id := fmt.Sprintf("d%02d", i)
		ver++
		cur.Ops = append(cur.Ops, Op{Kind: "update", ID: id, Doc: GenDoc(r, co.Vocab, id, fmt.Sprintf("v%d", ver), co, opts)})
		named[id] = true
		if r.Intn(4) == 0 {
			flush()
			named = map[string]bool{}
		}
	}
	flush()
	// updates and deletes of earlier documents => pending deletions in earlier segments
	nmod := 0
	if nd > 0 {
		nmod = r.Intn(nd/3 + 2)
	}
	named = map[string]bool{}
	for i := 0; i < nmod; i++ {
		id := fmt.Sprintf("d%02d", r.Intn(nd))
		if named[id] {
			continue
		}
		named[id] = true
		if r.Intn(2) == 0 {
			cur.Ops = append(cur.Ops, Op{Kind: "delete", ID: id})
		} else {
			ver++
			cur.Ops = append(cur.Ops, Op{Kind: "update", ID: id, Doc: GenDoc(r, co.Vocab, id, fmt.Sprintf("v%d", ver), co, opts)})
		}
		if r.Intn(3) == 0 {
			flush()
			named = map[string]bool{}
		}
	}
	flush()
	co.Final = ix
	return co
}

// QueryOpts selects the leaf kinds a generated query may use.
type QueryOpts struct {
	Kinds []string
	Depth int
}

// AllLeafKinds lists every leaf query kind of the model.
var AllLeafKinds = []string{"term", "term", "term", "match", "matchphrase", "multiphrase", "prefix", "wildcard", "regexp", "fuzzy",
	"termrange", "numrange", "daterange", "geobox", "geodist", "all", "none", "kwterm"}

var regexpPool = []string{"a+", "a.*c", "(a|b)c?", "[ab]+", "b*", "a.c", "(ab)+", "c[^a]", "..", "a|b|c", "[a-c]{2}", ".*b",
	// flags in force for all or part of the pattern (the literal-prefix shortcut must respect them)
	"(?i)ab.*", "(?i)A", "(?i)a[bc]?", "a(?i)B.*", "(?i:A)b*", "(?i)abc", "(?i)[A]b.?", "(?s)a.c", "(?i)B+"}

// GenLeaf generates a leaf query of the kind.
func GenLeaf(r *rand.Rand, co *Corpus, kind string) *Q {
	v := co.Vocab
	tf := "t"
	if r.Intn(6) == 0 {
		tf = "u"
	}
	switch kind {
	case "term":
		return &Q{Kind: "term", Field: tf, Term: v.AnyWord(r)}
	case "kwterm":
		return &Q{Kind: "term", Field: "k", Term: v.AnyWord(r)}
	case "idterm":
		// a term that occurs in exactly one document, once, in a field without positions (segments written
		// by a merge store such terms in a compact form of their own)
		id := fmt.Sprintf("k%d", r.Intn(8))
		if co != nil && co.Final != nil && len(co.Final.Docs) > 0 && r.Intn(4) != 0 {
			id = co.Final.Docs[r.Intn(len(co.Final.Docs))].ID
		}
		return &Q{Kind: "term", Field: "_id", Term: id}
	case "match":
		n := r.Intn(4)
		s := ""
		for i := 0; i < n; i++ {
			s += " " + v.AnyWord(r)
		}
		q := &Q{Kind: "match", Field: tf, Term: s, And: r.Intn(2) == 0}
		if r.Intn(4) == 0 {
			q.Fuzz = 1 + r.Intn(2)
			q.Pre = r.Intn(3)
		}
		return q
	case "matchphrase":
		n := 1 + r.Intn(3)
		s := ""
		for i := 0; i < n; i++ {
			s += " " + v.AnyWord(r)
		}
		return &Q{Kind: "matchphrase", Field: tf, Term: s, Slop: r.Intn(4)}
	case "multiphrase":
		pl := 1 + r.Intn(4)
		var ph [][]string
		for i := 0; i < pl; i++ {
			switch r.Intn(6) {
			case 0:
				ph = append(ph, []string{v.AnyWord(r), v.AnyWord(r)})
			case 1:
				if i > 0 && i < pl-1 {
					ph = append(ph, []string{""})
					continue
				}
				fallthrough
			default:
				ph = append(ph, []string{v.AnyWord(r)})
			}
		}
		return &Q{Kind: "multiphrase", Field: tf, Phrase: ph, Slop: r.Intn(4)}
	case "prefix":
		w := v.AnyWord(r)
		return &Q{Kind: "prefix", Field: tf, Term: w[:1+r.Intn(len(w))]}
	case "wildcard":
		s := ""
		for i := 0; i < 1+r.Intn(4); i++ {
			s += []string{"a", "b", "c", "*", "?"}[r.Intn(5)]
		}
		return &Q{Kind: "wildcard", Field: tf, Term: s}
	case "regexp":
		return &Q{Kind: "regexp", Field: tf, Term: regexpPool[r.Intn(len(regexpPool))]}
	case "fuzzy":
		return &Q{Kind: "fuzzy", Field: tf, Term: v.AnyWord(r), Fuzz: r.Intn(3), Pre: r.Intn(3)}
	case "termrange":
		lo, hi := v.AnyWord(r), v.AnyWord(r)
		if r.Intn(5) == 0 {
			lo = ""
		}
		if r.Intn(5) == 0 {
			hi = ""
		}
		if lo == "" && hi == "" {
			lo = "a"
		}
		if r.Intn(3) != 0 && lo != "" && hi != "" && lo > hi {
			lo, hi = hi, lo
		}
		f := tf
		if r.Intn(3) == 0 {
			f = "k"
		}
		return &Q{Kind: "termrange", Field: f, Lo: lo, Hi: hi, IncMin: r.Intn(2) == 0, IncMax: r.Intn(2) == 0}
	case "numrange":
		a, b := numEndPool[r.Intn(len(numEndPool))], numEndPool[r.Intn(len(numEndPool))]
		if r.Intn(4) == 0 {
			a = float64(r.Intn(40) - 20)
		}
		if r.Intn(4) == 0 {
			b = float64(r.Intn(40) - 20)
		}
		if r.Intn(6) == 0 {
			a = math.Inf(-1)
		}
		if r.Intn(6) == 0 {
			b = math.Inf(1)
		}
		if r.Intn(4) != 0 && numeric.Float64ToInt64(a) > numeric.Float64ToInt64(b) && !math.IsInf(a, 0) && !math.IsInf(b, 0) {
			a, b = b, a
		}
		return &Q{Kind: "numrange", Field: "n", Min: a, Max: b, IncMin: r.Intn(2) == 0, IncMax: r.Intn(2) == 0}
	case "daterange":
		a, b := DatePool[r.Intn(len(DatePool))], DatePool[r.Intn(len(DatePool))]
		q := &Q{Kind: "daterange", Field: "d", IMin: a, IMax: b, IncMin: r.Intn(2) == 0, IncMax: r.Intn(2) == 0}
		if r.Intn(4) != 0 && a > b {
			q.IMin, q.IMax = b, a
		}
		if r.Intn(6) == 0 {
			q.OpenMin = true
			q.IMin = 0
		} else if r.Intn(6) == 0 {
			q.OpenMax = true
			q.IMax = 0
		}
		// time.Unix(0,0) is not the zero time, so 0 is a legitimate bound
		return q
	case "geobox":
		spr := co.GeoSpr
		w2, h2 := spr*r.Float64(), spr*r.Float64()/2
		bxc, byc := co.GeoCX+(r.Float64()*2-1)*spr/2, co.GeoCY+(r.Float64()*2-1)*spr/4
		minLon, maxLon := bxc-w2, bxc+w2
		minLat, maxLat := math.Max(-90, byc-h2), math.Min(90, byc+h2)
		cross := false
		if minLon < -180 {
			minLon += 360
			cross = true
		}
		if maxLon > 180 {
			maxLon -= 360
			cross = true
		}
		if minLon < -180 || maxLon > 180 || (cross && minLon <= maxLon) || minLat > maxLat {
			return &Q{Kind: "geobox", Field: "g", MinLon: -10, MaxLon: 10, MinLat: -10, MaxLat: 10}
		}
		return &Q{Kind: "geobox", Field: "g", MinLon: minLon, MaxLon: maxLon, MinLat: minLat, MaxLat: maxLat}
	case "geodist":
		dists := []float64{10, 1000, 100000, 2000000}
		if GeoHeavy {
			dists = append(dists, 15000000) // planet-scale radii cost seconds per search
		}
		dist := dists[r.Intn(len(dists))] * (0.5 + r.Float64())
		px := co.GeoCX + (r.Float64()*2-1)*co.GeoSpr/2
		py := math.Max(-90, math.Min(90, co.GeoCY+(r.Float64()*2-1)*co.GeoSpr/4))
		for px > 180 {
			px -= 360
		}
		for px < -180 {
			px += 360
		}
		return &Q{Kind: "geodist", Field: "g", CLon: px, CLat: py, DistM: dist}
	case "all":
		return &Q{Kind: "all"}
	case "none":
		return &Q{Kind: "none"}
	}
	panic("unknown leaf kind " + kind)
}

// GenWideQuery generates a boolean query whose should or must-not list has more than ten
// clauses (the disjunction searcher switches from its slice to its heap implementation there),
// some of them composite (nested booleans, phrases), driven by a must clause or an enclosing
// conjunction so that the wide disjunction is advanced, not just iterated.
func GenWideQuery(r *rand.Rand, co *Corpus, o QueryOpts) *Q {
	n := 11 + r.Intn(5)
	var wide []*Q
	for i := 0; i < n; i++ {
		switch r.Intn(5) {
		case 0:
			wide = append(wide, GenQuery(r, co, o, 1))
		case 1:
			wide = append(wide, GenLeaf(r, co, "matchphrase"))
		default:
			wide = append(wide, GenLeaf(r, co, "term"))
		}
	}
	b := &Q{Kind: "bool"}
	switch r.Intn(4) {
	case 0: // must + wide should
		b.Must = []*Q{GenLeaf(r, co, "term")}
		b.Should = wide
		b.MinShould = r.Intn(3)
	case 1: // must + wide must-not
		b.Must = []*Q{GenQuery(r, co, o, 1)}
		b.MustNot = wide
	case 2: // wide should inside an outer conjunction
		inner := &Q{Kind: "bool", Should: wide, MinShould: 1 + r.Intn(2)}
		b.Must = []*Q{GenLeaf(r, co, "term"), inner}
	default: // wide should alone, with a minimum
		b.Should = wide
		b.MinShould = 1 + r.Intn(3)
	}
	return b
}

// GenQuery generates a query tree of at most the given depth.
func GenQuery(r *rand.Rand, co *Corpus, o QueryOpts, depth int) *Q {
	if depth <= 0 || r.Intn(10) < 4 {
		return GenLeaf(r, co, o.Kinds[r.Intn(len(o.Kinds))])
	}
	b := &Q{Kind: "bool"}
	for i := r.Intn(3); i > 0; i-- {
		b.Must = append(b.Must, GenQuery(r, co, o, depth-1))
	}
	for i := r.Intn(4); i > 0; i-- {
		b.Should = append(b.Should, GenQuery(r, co, o, depth-1))
	}
	for i := r.Intn(2); i > 0; i-- {
		b.MustNot = append(b.MustNot, GenQuery(r, co, o, depth-1))
	}
	b.MinShould = r.Intn(3)
	return b
}

// GeoHeavy enables planet-scale geo queries and world-wide point spreads (thorough tiers).
var GeoHeavy bool
