// yieldify copies a bluge source tree and inserts calls to a yield hook between the critical
// sections of package index: before every Lock/RLock, channel send, receive, select and Wait, after
// every (non-deferred) Unlock/RUnlock, close(ch) and go statement. The copy is semantically the original
// plus calls to index.VerifYieldHook (nil = nothing happens); the harness built with -tags verifyield
// installs a seeded perturbation there, which widens every window between two critical sections instead
// of only those that happen to contain a directory or plug-in seam.
//
// usage: yieldify <source repo> <destination directory>
package main

import (
	"fmt"
	"go/ast"
	"go/parser"
	"go/token"
	"io"
	"io/fs"
	"os"
	"path/filepath"
	"sort"
	"strings"
)

type ins struct {
	off  int
	text string
}

func selName(call *ast.CallExpr) string {
	if se, ok := call.Fun.(*ast.SelectorExpr); ok {
		return se.Sel.Name
	}
	if id, ok := call.Fun.(*ast.Ident); ok {
		return id.Name
	}
	return ""
}

func isRecv(e ast.Expr) bool {
	u, ok := e.(*ast.UnaryExpr)
	return ok && u.Op == token.ARROW
}

func instrument(path, rel string) (int, error) {
	src, err := os.ReadFile(path)
	if err != nil {
		return 0, err
	}
	fset := token.NewFileSet()
	f, err := parser.ParseFile(fset, path, src, parser.ParseComments)
	if err != nil {
		return 0, err
	}
	var all []ins
	point := func(p token.Pos) string {
		return fmt.Sprintf("%s:%d", rel, fset.Position(p).Line)
	}
	before := func(s ast.Stmt) {
		all = append(all, ins{fset.Position(s.Pos()).Offset, fmt.Sprintf("verifYield(%q); ", point(s.Pos()))})
	}
	after := func(s ast.Stmt) {
		all = append(all, ins{fset.Position(s.End()).Offset, fmt.Sprintf("; verifYield(%q)", point(s.Pos())+"+")})
	}
	visitList := func(list []ast.Stmt) {
		for _, s := range list {
			switch st := s.(type) {
			case *ast.ExprStmt:
				if call, ok := st.X.(*ast.CallExpr); ok {
					switch selName(call) {
					case "Lock", "RLock", "Wait":
						if len(call.Args) == 0 {
							before(s)
						}
					case "Unlock", "RUnlock":
						if len(call.Args) == 0 {
							after(s)
						}
					case "close":
						if _, isIdent := call.Fun.(*ast.Ident); isIdent && len(call.Args) == 1 {
							after(s)
						}
					}
				} else if isRecv(st.X) {
					before(s)
				}
			case *ast.AssignStmt:
				if len(st.Rhs) == 1 && isRecv(st.Rhs[0]) {
					before(s)
				}
			case *ast.SendStmt, *ast.SelectStmt:
				before(s)
			case *ast.GoStmt:
				after(s)
			}
		}
	}
	ast.Inspect(f, func(n ast.Node) bool {
		switch b := n.(type) {
		case *ast.BlockStmt:
			visitList(b.List)
		case *ast.CaseClause:
			visitList(b.Body)
		case *ast.CommClause:
			visitList(b.Body)
		}
		return true
	})
	if len(all) == 0 {
		return 0, nil
	}
	sort.SliceStable(all, func(i, j int) bool { return all[i].off > all[j].off })
	out := src
	for _, in := range all {
		out = append(out[:in.off:in.off], append([]byte(in.text), out[in.off:]...)...)
	}
	return len(all), os.WriteFile(path, out, 0o644)
}

func copyTree(src, dst string) error {
	return filepath.WalkDir(src, func(p string, d fs.DirEntry, err error) error {
		if err != nil {
			return err
		}
		rel, _ := filepath.Rel(src, p)
		if d.IsDir() {
			if d.Name() == ".git" {
				return filepath.SkipDir
			}
			return os.MkdirAll(filepath.Join(dst, rel), 0o755)
		}
		if !d.Type().IsRegular() {
			return nil
		}
		in, err := os.Open(p)
		if err != nil {
			return err
		}
		defer in.Close()
		out, err := os.Create(filepath.Join(dst, rel))
		if err != nil {
			return err
		}
		if _, err := io.Copy(out, in); err != nil {
			out.Close()
			return err
		}
		return out.Close()
	})
}

const hookFile = `package index

// VerifYieldHook is installed by the verification harness (see /verif/harness/cmd/yieldify).
var VerifYieldHook func(point string)

func verifYield(point string) {
	if h := VerifYieldHook; h != nil {
		h(point)
	}
}
`

func main() {
	if len(os.Args) != 3 {
		fmt.Fprintln(os.Stderr, "usage: yieldify <source repo> <destination directory>")
		os.Exit(2)
	}
	src, dst := os.Args[1], os.Args[2]
	if err := copyTree(src, dst); err != nil {
		fmt.Fprintln(os.Stderr, "copy:", err)
		os.Exit(2)
	}
	dir := filepath.Join(dst, "index")
	ents, err := os.ReadDir(dir)
	if err != nil {
		fmt.Fprintln(os.Stderr, err)
		os.Exit(2)
	}
	total, files := 0, 0
	for _, e := range ents {
		n := e.Name()
		if e.IsDir() || !strings.HasSuffix(n, ".go") || strings.HasSuffix(n, "_test.go") || strings.HasPrefix(n, "verif_") {
			continue
		}
		k, err := instrument(filepath.Join(dir, n), "index/"+n)
		if err != nil {
			fmt.Fprintln(os.Stderr, "instrument", n+":", err)
			os.Exit(2)
		}
		if k > 0 {
			files++
		}
		total += k
	}
	if err := os.WriteFile(filepath.Join(dir, "zz_verif_yield.go"), []byte(hookFile), 0o644); err != nil {
		fmt.Fprintln(os.Stderr, err)
		os.Exit(2)
	}
	fmt.Printf("yieldify: %d yield points in %d files of package index\n", total, files)
}
