package main

import (
	"bytes"
	"encoding/json"
	"fmt"
	"io"
	"os"
	"os/exec"
	"path/filepath"
	"strconv"
	"strings"
	"sync"

	"verif/harness/vk"
)

// Several checks drive bluge in this very process; a panic or a runtime fault in one of bluge's
// background goroutines (introducer, persister, merger) cannot be recovered and would end the check
// without a verdict. The check therefore runs in a supervised copy of this process: if that copy dies
// without having printed its final summary, the supervisor reports the death as a violation, with the
// tail of its output as the witness.

type tailBuf struct {
	mu  sync.Mutex
	buf []byte
	max int
}

func (t *tailBuf) Write(p []byte) (int, error) {
	t.mu.Lock()
	t.buf = append(t.buf, p...)
	if len(t.buf) > 2*t.max {
		t.buf = append([]byte(nil), t.buf[len(t.buf)-t.max:]...)
	}
	t.mu.Unlock()
	return len(p), nil
}

func (t *tailBuf) String() string {
	t.mu.Lock()
	defer t.mu.Unlock()
	b := t.buf
	if len(b) > t.max {
		b = b[len(b)-t.max:]
	}
	return string(b)
}

func supervise(id string) int {
	cmd := exec.Command(os.Args[0], os.Args[1:]...)
	cmd.Env = append(os.Environ(), "VERIF_SUPERVISED=1", "GOTRACEBACK=all")
	cmd.Stdin = os.Stdin
	outTail := &tailBuf{max: 1 << 20}
	errHead := &bytes.Buffer{}
	errTail := &tailBuf{max: 256 << 10}
	cmd.Stdout = io.MultiWriter(os.Stdout, outTail)
	cmd.Stderr = io.MultiWriter(os.Stderr, errTail, &limitedWriter{w: errHead, n: 64 << 10})
	err := cmd.Run()
	code := 0
	if err != nil {
		code = 2
		if ee, ok := err.(*exec.ExitError); ok {
			code = ee.ExitCode()
		}
	}
	out := outTail.String()
	finished := strings.Contains(out, id+" quick seed=") || strings.Contains(out, id+" thorough seed=")
	if finished || code == 0 {
		return code
	}
	stderr := errHead.String()
	if code == 2 && !strings.Contains(stderr, "panic:") && !strings.Contains(stderr, "fatal error:") && !strings.Contains(stderr, "goroutine ") {
		return code // usage error and the like
	}
	// the check process died
	key := "check-process-killed:harness-frames-only"
	first := stderr
	if i := strings.Index(first, "\n\ngoroutine "); i >= 0 {
		if j := strings.Index(first[i+2:], "\n\n"); j >= 0 {
			first = first[:i+2+j]
		}
	}
	if strings.Contains(first, "github.com/blugelabs/") {
		key = "check-process-killed:fault-in-bluge-goroutine"
	}
	root := vk.Root()
	_ = os.MkdirAll(filepath.Join(root, "replays"), 0o755)
	p := filepath.Join(root, "replays", fmt.Sprintf("%s-crash-%d.json", id, os.Getpid()))
	seed, _ := strconv.ParseInt(os.Getenv("VERIF_SEED"), 10, 64)
	if seed == 0 {
		seed = 1
	}
	tier := "quick"
	if len(os.Args) > 2 && os.Args[2] == "thorough" {
		tier = "thorough"
	}
	b, _ := json.MarshalIndent(map[string]interface{}{
		"property": id, "key": key, "args": os.Args[1:], "seed": seed, "tier": tier, "exit": code, // (--replay re-runs the check with this seed and tier)
		"what":     "the process running the check died before finishing; head and tail of its stderr follow",
		"witness":  map[string]string{"stderr_head": clip(stderr, 24000), "stderr_tail": clip(errTail.String(), 24000)},
	}, "", " ")
	_ = os.WriteFile(p, b, 0o644)
	fmt.Printf("VIOLATION property=%s replay=%s\n", id, p)
	fmt.Printf("  key=%s: the check process died (exit %d) before finishing:\n%s\n", key, code, clip(first, 3000))
	return 1
}

type limitedWriter struct {
	w io.Writer
	n int
}

func (l *limitedWriter) Write(p []byte) (int, error) {
	if l.n > 0 {
		q := p
		if len(q) > l.n {
			q = q[:l.n]
		}
		l.n -= len(q)
		_, _ = l.w.Write(q)
	}
	return len(p), nil
}

func clip(s string, n int) string {
	if len(s) > n {
		return s[:n] + "\n..."
	}
	return s
}
