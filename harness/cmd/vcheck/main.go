// vcheck runs one property check: vcheck <Cxx> <quick|thorough> | vcheck <Cxx> --replay <file> | vcheck child ...
package main

import (
	"encoding/json"
	"fmt"
	"os"
	"runtime/pprof"
	"strconv"

	"verif/harness/checks"
	"verif/harness/vk"
)

func main() {
	if len(os.Args) >= 2 && os.Args[1] == "child" {
		os.Exit(vk.ChildMain(os.Args[2:]))
	}
	if len(os.Args) < 3 {
		fmt.Fprintln(os.Stderr, "usage: vcheck <Cxx> <quick|thorough>|--replay <file>; known:", checks.IDs())
		os.Exit(2)
	}
	id := os.Args[1]
	ch := checks.Get(id)
	if ch == nil {
		fmt.Fprintln(os.Stderr, "unknown property", id)
		os.Exit(2)
	}
	if os.Getenv("VERIF_SUPERVISED") == "" {
		os.Exit(supervise(id))
	}
	seed := int64(1)
	if s := os.Getenv("VERIF_SEED"); s != "" {
		if v, err := strconv.ParseInt(s, 10, 64); err == nil {
			seed = v
		}
	}
	tier := os.Args[2]
	if tier == "--replay" {
		if len(os.Args) < 4 {
			fmt.Fprintln(os.Stderr, "--replay needs a file")
			os.Exit(2)
		}
		b, err := os.ReadFile(os.Args[3])
		if err != nil {
			fmt.Fprintln(os.Stderr, err)
			os.Exit(2)
		}
		var rep struct {
			Seed    int64           `json:"seed"`
			Tier    string          `json:"tier"`
			Witness json.RawMessage `json:"witness"`
		}
		if err := json.Unmarshal(b, &rep); err != nil {
			fmt.Fprintln(os.Stderr, err)
			os.Exit(2)
		}
		if rep.Tier == "" {
			rep.Tier = "quick"
		}
		c := vk.NewCtx(id, rep.Tier, rep.Seed, ch.Level)
		c.Set("replay_of", os.Args[3])
		c.ReplayMode = true
		if ch.Replay != nil {
			ch.Replay(c, rep.Witness)
		} else {
			ch.Run(c)
		}
		os.Exit(c.Finish())
	}
	if t := os.Getenv("VERIF_TIER"); t != "" && tier == "" {
		tier = t
	}
	if tier != "quick" && tier != "thorough" {
		fmt.Fprintln(os.Stderr, "tier must be quick or thorough")
		os.Exit(2)
	}
	c := vk.NewCtx(id, tier, seed, ch.Level)
	if pf := os.Getenv("VERIF_CPUPROFILE"); pf != "" {
		f, err := os.Create(pf)
		if err == nil {
			_ = pprof.StartCPUProfile(f)
		}
	}
	ch.Run(c)
	pprof.StopCPUProfile()
	os.Exit(c.Finish())
}
