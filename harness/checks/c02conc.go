package checks

import (
	"encoding/json"
	"fmt"
	"math/rand"
	"sort"
	"strings"
	"sync"

	"github.com/blugelabs/bluge"

	"verif/harness/model"
	"verif/harness/mon"
	"verif/harness/vk"
)

// Concurrent issuers (C02): K goroutines, each issuing its own sequence of safe-mode batches over its
// own ids through the fully instrumented rig (seeded jitter at every directory / plug-in / event seam,
// so that the introducer, the persister and the merger interleave with several batches in flight).
// Every acknowledgement is marked in the directory trace; for every crash image the content restricted
// to one issuer's ids must be that issuer's abstract state after j batches with
//      (last batch acknowledged before the crash) <= j <= (last batch called before the crash).
// Acknowledgements of one issuer are sequential, issuers touch disjoint ids, so this per-issuer prefix
// rule is exactly what C02 states, quantified over concurrent callers.

type c02cIssuer struct {
	Prefix  string
	Batches []*model.Batch
	canon   []string // canon[j] = content of this issuer's ids after j batches
}

type c02cWitness struct {
	Config  string
	Seed    int64
	Issuers []*c02cIssuer
	Image   *mon.Image
	Files   map[string]string
}

func c02cGenIssuer(r *rand.Rand, k, n int) *c02cIssuer {
	is := &c02cIssuer{Prefix: fmt.Sprintf("g%dk", k)}
	cur := &model.Index{}
	is.canon = append(is.canon, "")
	ver := 0
	for j := 0; j < n; j++ {
		b := &model.Batch{}
		named := map[string]bool{}
		for x := 0; x < 1+r.Intn(3); x++ {
			id := fmt.Sprintf("%s%d", is.Prefix, r.Intn(4))
			if named[id] {
				continue
			}
			named[id] = true
			if r.Intn(5) == 0 {
				b.Ops = append(b.Ops, model.Op{Kind: "delete", ID: id})
				continue
			}
			ver++
			b.Ops = append(b.Ops, model.Op{Kind: "update", ID: id, Doc: &model.Doc{ID: id, V: fmt.Sprintf("%sv%d", is.Prefix, ver), Text: map[string]string{"t": fmt.Sprintf("w%d common", ver%3)}}})
		}
		// every batch changes something visible, so that consecutive states differ
		ver++
		mark := is.Prefix + "seq"
		b.Ops = append(b.Ops, model.Op{Kind: "update", ID: mark, Doc: &model.Doc{ID: mark, V: fmt.Sprintf("%sv%d", is.Prefix, ver), Text: map[string]string{"t": "seq"}}})
		is.Batches = append(is.Batches, b)
		cur = cur.Apply(b)
		is.canon = append(is.canon, strings.Join(modelDump(cur), ","))
	}
	return is
}

func c02cRun(c *vk.Ctx, i int) {
	seed := vk.SubSeed(c.Seed, fmt.Sprintf("c02conc-%d", i))
	r := rand.New(rand.NewSource(seed))
	dir := c.TempDir("c02c-")
	o := rigOpts{Dir: dir, SegVer: 1, Merge: []string{"happy", "none", "happy"}[i%3], MemMerge: i%2 == 0, Seed: seed | 1, KeepN: 1 + i%3}
	rg := newRig(o)
	w, err := bluge.OpenWriter(rg.Cfg)
	if err != nil {
		c.Violate("harness-open", err.Error(), nil)
		return
	}
	rdir := rg.RDir()
	K := 2 + i%3
	M := c.Pick(6, 10)
	var issuers []*c02cIssuer
	for k := 0; k < K; k++ {
		issuers = append(issuers, c02cGenIssuer(r, k, M))
	}
	// global, trace-ordered sequence numbers of calls and acknowledgements
	type ref struct{ k, j int }
	var mu sync.Mutex
	var callSeq, ackSeq int
	callOf, ackOf := map[int]ref{}, map[int]ref{}
	inFlight := 0
	overlapped := 0
	var wg sync.WaitGroup
	var errs []string
	for k, is := range issuers {
		wg.Add(1)
		go func(k int, is *c02cIssuer) {
			defer wg.Done()
			for j, b := range is.Batches {
				mu.Lock()
				callSeq++
				callOf[callSeq] = ref{k, j + 1}
				rdir.Mark("call", callSeq)
				if inFlight > 0 {
					overlapped++
				}
				inFlight++
				mu.Unlock()
				err := w.Batch(b.ToBluge())
				mu.Lock()
				inFlight--
				if err != nil {
					errs = append(errs, fmt.Sprintf("issuer %d batch %d: %v", k, j+1, err))
				} else {
					ackSeq++
					ackOf[ackSeq] = ref{k, j + 1}
					rdir.Mark("ack", ackSeq)
				}
				mu.Unlock()
				if err != nil {
					return
				}
			}
		}(k, is)
	}
	wg.Wait()
	if err := w.Close(); err != nil {
		errs = append(errs, "close: "+err.Error())
	}
	for _, e := range errs {
		c.Violate("fault-free-run-reports-error", e, map[string]interface{}{"config": rg.Name, "seed": seed})
	}
	for _, v := range rg.Violations() {
		c.Violate("seam-violation", fmt.Sprintf("config %s: %s", rg.Name, v), nil)
	}
	evs := rdir.Events()
	c.Event("concurrent_runs", 1)
	c.Event("concurrent_calls_overlapping_another_call", overlapped)
	c.Event("trace_events", len(evs))
	var images []*mon.Image
	for _, im := range mon.Images(evs, mon.ImageOpts{}) {
		switch im.Class {
		case "boundary", "torn-full", "torn-absent":
			images = append(images, im)
		}
	}
	dirs, results := openImages(c, images, fmt.Sprintf("c%d", i))
	defer removeAll(dirs)
	for n, im := range images {
		res := &results[n]
		c.Eval(1)
		c.Event("concurrent_images", 1)
		wit := &c02cWitness{Config: rg.Name, Seed: seed, Issuers: issuers, Image: im, Files: fileSummary(im.Files)}
		if res.Faulted() || res.Hung {
			if res.Hung {
				c.Inconclusive("child-watchdog")
				continue
			}
			c.Violate("open-kills-process", fmt.Sprintf("concurrent issuers: opening the crash image at position %d (%s) killed the process: %s", im.Pos, im.Class, firstLines(res.Panic+res.Died, 12)), wit)
			continue
		}
		var out crashOpenResult
		if res.Out == nil || json.Unmarshal(res.Out, &out) != nil {
			c.Violate("harness-child", fmt.Sprintf("no result for image at %d: %s", im.Pos, res.Err), nil)
			continue
		}
		// per-issuer window at this crash point
		lo, hi := make([]int, K), make([]int, K)
		for s := 1; s <= im.Acked; s++ {
			if rf, ok := ackOf[s]; ok && rf.j > lo[rf.k] {
				lo[rf.k] = rf.j
			}
		}
		for s := 1; s <= im.Called; s++ {
			if rf, ok := callOf[s]; ok && rf.j > hi[rf.k] {
				hi[rf.k] = rf.j
			}
		}
		good := true
		for _, who := range []struct {
			name string
			o    openOutcome
		}{{"OpenReader(mmap)", out.ReaderMmap}, {"OpenWriter", out.Writer}} {
			if who.o.Err != "" {
				if im.SnapshotCompleted {
					c.Violate("open-fails-although-a-snapshot-was-completed:"+who.name, fmt.Sprintf("concurrent issuers, crash at position %d (%s): %s failed: %s", im.Pos, im.Class, who.name, who.o.Err), wit)
					good = false
				} else {
					c.Event("legitimate_open_failures_no_snapshot_yet", 1)
				}
				continue
			}
			for k, is := range issuers {
				var mine []string
				for _, e := range who.o.Dump {
					if strings.HasPrefix(e, is.Prefix) {
						mine = append(mine, e)
					}
				}
				sort.Strings(mine)
				got := strings.Join(mine, ",")
				if hi[k] < lo[k] {
					hi[k] = lo[k]
				}
				st := -1
				for j := hi[k]; j >= lo[k]; j-- {
					if is.canon[j] == got {
						st = j
						break
					}
				}
				if st >= 0 {
					continue
				}
				good = false
				key := "concurrent-issuers:state-is-no-prefix-state"
				what := fmt.Sprintf("crash at position %d (%s): %s shows issuer %d's documents as %v, which is not its state after any batch in [%d,%d]", im.Pos, im.Class, who.name, k, mine, lo[k], hi[k])
				for j := 0; j < lo[k]; j++ {
					if is.canon[j] == got {
						key = "concurrent-issuers:acknowledged-batch-lost"
						what = fmt.Sprintf("crash at position %d (%s): %s recovered issuer %d's state after its batch %d although its batch %d had been acknowledged (other issuers had batches in flight)", im.Pos, im.Class, who.name, k, j, lo[k])
					}
				}
				c.Violate(key, what, wit)
			}
		}
		if good {
			c.Event("concurrent_images_recovered_ok", 1)
			// non-trivial: some issuer acknowledged while another one's call was outstanding at the crash point
			open := 0
			for k := range issuers {
				if hi[k] > lo[k] {
					open++
				}
			}
			if open >= 1 && im.Acked >= 1 {
				c.DistinctHash(vk.Hash64("conc|" + im.Hash))
				c.Event("concurrent_images_with_calls_in_flight", 1)
			}
		}
	}
	if i == 0 && len(images) > 2 {
		c.Sample(map[string]interface{}{"concurrent_issuers": K, "batches_each": M, "config": rg.Name, "events": len(evs), "images": len(images), "example_image": images[len(images)/2]})
	}
}

func c02Concurrent(c *vk.Ctx) {
	n := c.Pick(12, 160)
	for i := 0; i < n; i++ {
		c02cRun(c, i)
	}
	c.Require("concurrent_runs", 8)
	c.Require("concurrent_images_with_calls_in_flight", 50)
	c.Require("concurrent_calls_overlapping_another_call", 20)
}
