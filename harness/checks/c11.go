package checks

import (
	"fmt"
	"math/rand"
	"os"
	"path/filepath"
	"runtime"
	"strings"
	"sync"
	"sync/atomic"
	"time"

	"github.com/blugelabs/bluge"
	"github.com/blugelabs/bluge/index"

	"verif/harness/model"
	"verif/harness/mon"
	"verif/harness/vk"
)

func init() {
	register(&Check{ID: "C11", Level: "exploration", Run: runC11})
}

// dirMonitor is the on-line invariant monitor attached to a recording directory.
type dirMonitor struct {
	c       *vk.Ctx
	rdir    *mon.RDir
	dir     string
	keepN   int
	cfgName string
	commits int64 // successful snapshot persists
	getRoot func() (persistedIDs []uint64)
	mu      sync.Mutex
}

// loadableSnapshots reads the directory: epochs whose file decodes (CRC ok) and whose segment files all exist.
func loadableSnapshots(dir string) (ok []uint64, refs map[uint64]bool, all int) {
	refs = map[uint64]bool{}
	ents, err := os.ReadDir(dir)
	if err != nil {
		return
	}
	present := map[string]bool{}
	for _, e := range ents {
		present[e.Name()] = true
	}
	for _, e := range ents {
		if filepath.Ext(e.Name()) != ".snp" {
			continue
		}
		all++
		b, err := os.ReadFile(filepath.Join(dir, e.Name()))
		if err != nil {
			continue
		}
		segs, err := mon.DecodeSnapshotSegIDs(b)
		if err != nil {
			continue
		}
		complete := true
		for _, id := range segs {
			if !present[mon.FileName(".seg", id)] {
				complete = false
			}
		}
		if complete {
			var epoch uint64
			fmt.Sscanf(strings.TrimSuffix(e.Name(), ".snp"), "%x", &epoch)
			ok = append(ok, epoch)
			for _, id := range segs {
				refs[id] = true
			}
		}
	}
	return
}

func (m *dirMonitor) observe(ev *mon.Ev) {
	c := m.c
	switch ev.Op {
	case "persist-end":
		if ev.Kind == ".snp" && ev.Err == "" {
			atomic.AddInt64(&m.commits, 1)
		}
	case "remove":
	case "load-close":
		if ev.N > 1 {
			c.Violate("handle-closed-twice", fmt.Sprintf("config %s: the closer of %s %d (load event %d) was closed %d times", m.cfgName, ev.Kind, ev.ID, ev.Ref, ev.N), map[string]interface{}{"config": m.cfgName, "event": ev})
		}
		return
	default:
		return
	}
	commits := int(atomic.LoadInt64(&m.commits))
	if commits == 0 {
		return
	}
	need := m.keepN
	if commits < need {
		need = commits
	}
	var okSnaps []uint64
	var refs map[uint64]bool
	var total int
	m.rdir.Exclusive(func() {
		okSnaps, refs, total = loadableSnapshots(m.dir)
	})
	_ = refs
	c.Eval(1)
	c.Event("invariant_evaluations", 1)
	c.Distinct(fmt.Sprintf("N%d|%s%s|live%d", m.keepN, ev.Op, ev.Kind, len(okSnaps)))
	wit := map[string]interface{}{"config": m.cfgName, "keep": m.keepN, "event": ev.Seq, "op": ev.Op, "kind": ev.Kind, "id": ev.ID, "loadable_snapshots": okSnaps, "snapshot_files": total, "commits_so_far": commits}
	if len(okSnaps) < need {
		c.Violate("too-few-loadable-snapshots", fmt.Sprintf("config %s: after %s %s %d (event %d) only %d loadable snapshots with all their segment files are on disk, retention %d, %d commits so far", m.cfgName, ev.Op, ev.Kind, ev.ID, ev.Seq, len(okSnaps), m.keepN, commits), wit)
	}
	if ev.Op == "remove" && ev.Err == "" {
		c.Event("removes_checked", 1)
		if ev.Kind == ".seg" {
			// judged against the newest `need` loadable snapshots (those the policy retains) and the live root
			if m.getRoot != nil {
				for _, id := range m.getRoot() {
					if id == ev.ID {
						c.Violate("removed-segment-of-live-root", fmt.Sprintf("config %s: segment file %d was removed (event %d) while the writer's current root still refers to it", m.cfgName, ev.ID, ev.Seq), wit)
					}
				}
			}
		}
	}
}

type c11RunResult struct {
	handlesOpened, handlesClosed int
}

func c11Run(c *vk.Ctx, i int) {
	r := rand.New(rand.NewSource(vk.SubSeed(c.Seed, fmt.Sprintf("c11-%d", i))))
	keepN := 1 + i%3
	fs := fsOpts{Loader: []string{"mmap", "nommap"}[i%2], Merge: "happy", MemMerge: i%4 < 2, KeepN: keepN, Unsafe: i%5 == 4}
	cfgName := fmt.Sprintf("keep%d-%s-memmerge=%v-unsafe=%v", keepN, fs.Loader, fs.MemMerge, fs.Unsafe)
	dir := c.TempDir("c11-")
	var rdir *mon.RDir
	var monitor *dirMonitor
	var w *bluge.Writer
	var wmu sync.Mutex
	cfg := fsConfig(dir, fs, func(inner index.Directory) index.Directory {
		rdir = mon.NewRDir(inner, dir)
		monitor = &dirMonitor{c: c, rdir: rdir, dir: dir, keepN: keepN, cfgName: cfgName}
		monitor.getRoot = func() []uint64 {
			wmu.Lock()
			ww := w
			wmu.Unlock()
			if ww == nil {
				return nil
			}
			rd, err := ww.Reader()
			if err != nil {
				return nil
			}
			defer rd.Close()
			var ids []uint64
			segs := rd.VerifSnapshot().VerifSegments()
			for k, p := range rd.VerifSnapshot().VerifPersisted() {
				if p {
					ids = append(ids, segs[k].ID)
				}
			}
			return ids
		}
		rdir.Observe = monitor.observe
		if i%3 == 2 {
			// one transient I/O error on a snapshot write: the retention invariant must hold across it
			// (a commit that never reached the disk must not count as one of the N retained ones)
			var nSnp int64
			at := int64(3 + i%5)
			kind := ".snp"
			if i%6 == 5 {
				kind = ".seg" // a segment write of the persister fails: its snapshot is still the root then
			}
			rdir.Fault = func(opIndex int, p mon.Point) *mon.FaultSpec {
				if p.Name == "persist" && p.Kind == kind && p.Role == "persister" && atomic.AddInt64(&nSnp, 1) == at {
					c.Event("transient_snapshot_write_errors_injected", 1)
					return &mon.FaultSpec{Err: errInjected, AfterBytes: -1}
				}
				return nil
			}
		}
		jr := rand.New(rand.NewSource(int64(i) * 7919))
		var jmu sync.Mutex
		rdir.Gate = func(p mon.Point) {
			jmu.Lock()
			k := jr.Intn(10)
			jmu.Unlock()
			if k == 0 {
				time.Sleep(300 * time.Microsecond)
			} else if k < 3 {
				runtime.Gosched()
			}
		}
		return rdir
	})
	ww, err := bluge.OpenWriter(cfg)
	if err != nil {
		c.Violate("harness-open", err.Error(), nil)
		return
	}
	wmu.Lock()
	w = ww
	wmu.Unlock()
	// a second writer on the locked directory must be refused and must not harm the first
	// ... and a refusal must leave the lock in force: every further attempt is refused as well, at any
	// moment of the first writer's life (a refused open that cleans up "its" lock file would admit the next)
	probeSecond := func(stage string) {
		for attempt := 1; attempt <= 3; attempt++ {
			w2, err2 := bluge.OpenWriter(fsConfig(dir, fs, nil))
			if err2 == nil {
				key := "second-writer-not-refused"
				if attempt > 1 {
					key = "refused-writer-harms-lock"
				}
				c.Violate(key, fmt.Sprintf("config %s, %s: OpenWriter attempt %d on a directory whose writer is open succeeded (attempts before it were refused)", cfgName, stage, attempt), nil)
				_ = w2.Close()
				return
			}
			c.Event("second_writer_refused", 1)
		}
	}
	probeSecond("right after open")
	batches := genHistory(r, c.Pick(30, 60), 6, "v")
	cur := &model.Index{}
	var held []*bluge.Reader
	for bi, b := range batches {
		if bi == len(batches)/2 || bi == len(batches)-1 {
			probeSecond(fmt.Sprintf("before batch %d", bi))
		}
		if err := ww.Batch(b.ToBluge()); err != nil {
			if i%3 == 2 && strings.Contains(err.Error(), errInjected.Error()) {
				c.Event("batches_reporting_the_injected_error", 1) // applied, its persist failed once
			} else {
				c.Violate("batch-error-after-refused-second-writer", fmt.Sprintf("config %s: batch %d: %v", cfgName, bi, err), nil)
			}
		}
		cur = cur.Apply(b)
		if bi%7 == 3 {
			if rd, err := ww.Reader(); err == nil {
				held = append(held, rd) // readers held across clean-up
			}
		}
		if bi%7 == 6 && len(held) > 1 {
			_ = held[0].Close()
			held = held[1:]
		}
	}
	// removal never disturbs an open reader: the held readers still answer
	for _, rd := range held {
		if _, err := dumpReader(rd); err != nil {
			c.Violate("open-reader-disturbed-by-removal", fmt.Sprintf("config %s: a held reader failed after clean-up: %v", cfgName, err), nil)
		} else {
			c.Event("held_readers_still_answering", 1)
		}
	}
	final, _ := ww.Reader()
	if final != nil {
		if d, err := dumpReader(final); err != nil || fmt.Sprint(d) != fmt.Sprint(modelDump(cur)) {
			c.Violate("content-wrong-at-end", fmt.Sprintf("config %s: %v vs model %v (%v)", cfgName, d, modelDump(cur), err), nil)
		}
		_ = final.Close()
	}
	for _, rd := range held {
		_ = rd.Close()
	}
	wmu.Lock()
	w = nil
	wmu.Unlock()
	if err := ww.Close(); err != nil {
		c.Violate("close-error", err.Error(), nil)
	}
	// every handle opened through the directory is closed exactly once
	opened := map[int]*mon.Ev{}
	closes := map[int]int{}
	for _, e := range rdir.Events() {
		switch e.Op {
		case "load":
			if e.Err == "" {
				opened[e.Seq] = e
			}
		case "load-close":
			closes[e.Ref]++
		}
	}
	for seq, e := range opened {
		c.Event("handles_opened", 1)
		switch closes[seq] {
		case 1:
			c.Event("handles_closed_once", 1)
		case 0:
			c.Violate("handle-never-closed", fmt.Sprintf("config %s: %s %d loaded by the %s (event %d) was never closed although writer and all readers are closed", cfgName, e.Kind, e.ID, e.Role, seq), map[string]interface{}{"config": cfgName, "event": e})
		}
	}
	// no descriptor under the index directory is left open in this process
	if fds := openFDsUnder(dir); len(fds) > 0 {
		c.Violate("descriptor-leak", fmt.Sprintf("config %s: after closing writer and readers these descriptors are still open: %v", cfgName, fds), nil)
	} else {
		c.Event("fd_checks_clean", 1)
	}
	// the lock is released: the directory can be reopened at once
	w2, err := bluge.OpenWriter(fsConfig(dir, fs, nil))
	if err != nil {
		c.Violate("reopen-after-close-fails", fmt.Sprintf("config %s: OpenWriter right after Close: %v", cfgName, err), nil)
	} else {
		rd, _ := w2.Reader()
		if rd != nil {
			// (unsafe batches that were never acknowledged need not survive Close)
			if d, err := dumpReader(rd); err != nil || (!fs.Unsafe && fmt.Sprint(d) != fmt.Sprint(modelDump(cur))) {
				c.Violate("content-wrong-after-reopen", fmt.Sprintf("config %s: reopened index shows %v, model %v (%v)", cfgName, d, modelDump(cur), err), nil)
			}
			_ = rd.Close()
		}
		_ = w2.Close()
		c.Event("reopen_after_close_ok", 1)
	}
	c.Event("runs", 1)
	if i == 0 {
		c.Sample(map[string]interface{}{"config": cfgName, "directory_events": len(rdir.Events()), "batches": len(batches)})
	}
}

func openFDsUnder(dir string) []string {
	var out []string
	ents, err := os.ReadDir("/proc/self/fd")
	if err != nil {
		return nil
	}
	for _, e := range ents {
		t, err := os.Readlink(filepath.Join("/proc/self/fd", e.Name()))
		if err == nil && strings.HasPrefix(t, dir+"/") {
			out = append(out, t)
		}
	}
	return out
}

// hand-off stress: goroutines open and close writers on one directory; at most one may be open at a time.
func c11Handoff(c *vk.Ctx, rounds int) {
	dir := c.TempDir("c11-lock-")
	cfg := fsConfig(dir, fsOpts{Loader: "mmap", Merge: "none"}, nil)
	w, err := bluge.OpenWriter(cfg)
	if err != nil {
		c.Violate("harness-open", err.Error(), nil)
		return
	}
	_ = w.Insert(bluge.NewDocument("a"))
	_ = w.Close()
	var holders int32
	var maxHolders int32
	var handoffs int64
	var wg sync.WaitGroup
	stop := int64(rounds)
	for g := 0; g < 6; g++ {
		wg.Add(1)
		go func(g int) {
			defer wg.Done()
			for atomic.LoadInt64(&handoffs) < stop {
				w, err := bluge.OpenWriter(cfg)
				if err != nil {
					runtime.Gosched()
					continue
				}
				n := atomic.AddInt32(&holders, 1)
				for {
					m := atomic.LoadInt32(&maxHolders)
					if n <= m || atomic.CompareAndSwapInt32(&maxHolders, m, n) {
						break
					}
				}
				atomic.AddInt64(&handoffs, 1)
				runtime.Gosched()
				atomic.AddInt32(&holders, -1)
				_ = w.Close()
			}
		}(g)
	}
	wg.Wait()
	c.Eval(int(handoffs))
	c.Event("lock_handoffs", int(handoffs))
	c.EventMax("max_simultaneous_writers_on_one_directory", int64(maxHolders))
	if maxHolders > 1 {
		c.Violate("lock-handoff-two-holders", fmt.Sprintf("%d writers were open on one directory at the same time during %d open/close hand-offs by 6 goroutines", maxHolders, handoffs), map[string]interface{}{"handoffs": handoffs, "max_holders": maxHolders})
	}
}

func runC11(c *vk.Ctx) {
	c.Rule("merge-happy runs of generated histories (retention N in {1,2,3}, both loaders, in-memory merges on/off, safe/unsafe) on a real directory behind the recording wrapper, readers held across clean-up; after every completed snapshot persist and every remove the directory is read back (while no operation is in progress): at least min(N, commits) snapshot files must decode, CRC-check and have all their segment files, and a removed segment must not belong to the writer's current root; " +
		"at the end: closer pairing of every Load, /proc/self/fd, immediate reopen, refusal of a second writer; plus an open/close hand-off stress by 6 goroutines. distinct non-trivial = distinct (N, operation kind, number of loadable snapshots) states in which the invariant was evaluated")
	c.Assume("the invariant is evaluated at operation boundaries (operations are held off while the directory is read back)",
		"the writer's root is read after the remove completed: a root that still refers to the removed id is a violation, the opposite order of events can hide one")
	nRuns := c.Pick(18, 600)
	var wg sync.WaitGroup
	sem := make(chan struct{}, 6)
	for i := 0; i < nRuns; i++ {
		wg.Add(1)
		sem <- struct{}{}
		go func(i int) {
			defer wg.Done()
			defer func() { <-sem }()
			c11Run(c, i)
		}(i)
	}
	wg.Wait()
	c11Handoff(c, c.Pick(400, 6000))
	c.Require("invariant_evaluations", 300)
	c.Require("removes_checked", 50)
	c.Require("handles_closed_once", 50)
	c.Require("reopen_after_close_ok", 5)
	c.Require("lock_handoffs", 100)
}
