package checks

import (
	"encoding/json"
	"errors"
	"fmt"
	"math/rand"
	"runtime"
	"strings"
	"sync"
	"sync/atomic"
	"time"

	"github.com/blugelabs/bluge"
	"github.com/blugelabs/bluge/index"

	"verif/harness/model"
	"verif/harness/mon"
	"verif/harness/vk"
)

func init() {
	register(&Check{ID: "C14", Level: "fault_enumeration", Run: runC14})
	vk.RegisterChild("c14run", c14Child)
}

type c14Case struct {
	Seed     int64
	Batches  int
	Unsafe   bool
	MemMerge bool
	FaultAt  int    // first operation index at which the fault may fire (-1: fault free)
	Op       string // persist load remove list
	Mode     string // before partial full (persist only)
	Sticky   bool   // keeps firing on every matching operation until cleared
	ClearAt  int    // sticky: the harness clears the fault before this batch number
	Second   int    // optional second placement (op index), -1 none
	Dir      string
	// >0: the fault is the n-th segment Persist of the MERGER, and it arrives only after the foreground has
	// applied one more batch (a merge failing while batches go on)
	MergerNth int `json:",omitempty"`
}

type c14Fired struct {
	OpIndex int
	Role    string
	Op      string
	Kind    string
	ID      uint64
}

type c14Result struct {
	OpenErr     string
	Fired       []c14Fired
	BatchErrs   map[int]string
	AsyncErrors []string
	ReaderBad   []string // disagreements between a reader and the model of applied batches
	FinalBatch  string   // error of the final batch issued after the fault cleared ("" = acknowledged)
	CloseErr    string
	Events      []*mon.Ev
	Batches     []*model.Batch
	Ops         []string // fault-free reference: op kinds by index
	NoProgress  string   // goroutine dump when the workload stopped making progress
	MergeProbe  string   // set when further batches after the fault were no longer merged
	DeadLoop    string   // a background goroutine of the open writer that no longer exists after the fault
	EventsBeforeProbe int // length of the directory trace when the merge-alive probe began
	OpsBeforeProbe    int // number of directory operations before the probe (fault placements are drawn from these)
	SegmentsAfterProbe int
	Overlapped  bool // MergerNth: a batch was applied between the merger's Persist call and its failure
	LostCallbacks     []int // unsafe mode: batches whose persisted call-back had not run with nil when the final batch's had
	RepeatedCallbacks int
	CallbacksChecked  bool
	ProbeReached     bool
	AsyncBeforeProbe int // asynchronous errors reported until the fault was over, the final batch acknowledged and the writer quiet
}

var errInjected = errors.New("injected I/O error")

func c14Child(in json.RawMessage) (interface{}, error) {
	var cs c14Case
	if err := json.Unmarshal(in, &cs); err != nil {
		return nil, err
	}
	res := &c14Result{BatchErrs: map[int]string{}}
	done := make(chan struct{})
	go func() {
		defer close(done)
		c14Workload(&cs, res)
	}()
	if dl := awaitWorkload(done, 45*time.Second, "checks.c14Workload"); dl != "" {
		return &c14Result{BatchErrs: map[int]string{}, NoProgress: dl}, nil
	}
	return res, nil
}

func c14Workload(cs *c14Case, res *c14Result) {
	var rdir *mon.RDir
	var mu sync.Mutex
	active := cs.FaultAt >= 0
	firedOnce := false
	secondDone := cs.Second < 0
	mergerPersists := 0
	var applied int64 // batches the foreground has got back from Batch
	var asyncMu sync.Mutex
	fs := fsOpts{Loader: "mmap", Merge: "happy", MemMerge: cs.MemMerge, Unsafe: cs.Unsafe}
	freshDir(cs.Dir) // (a case can be run a second time by the child runner)
	cfg := fsConfig(cs.Dir, fs, func(inner index.Directory) index.Directory {
		rdir = mon.NewRDir(inner, cs.Dir)
		decide := func(idx int, p mon.Point) *mon.FaultSpec {
			mu.Lock()
			defer mu.Unlock()
			res.Ops = append(res.Ops, p.Name+p.Kind)
			if !active || p.Name != cs.Op {
				return nil
			}
			fire := false
			if cs.MergerNth > 0 {
				// the n-th segment written by the MERGER fails (whatever its index in this run's trace)
				if p.Role == "merger" && p.Kind == ".seg" && !firedOnce {
					mergerPersists++
					fire = mergerPersists == cs.MergerNth
				}
				if !fire {
					return nil
				}
			} else if idx >= cs.FaultAt && (!firedOnce || cs.Sticky) {
				fire = true
			}
			if !fire && !secondDone && firedOnce && idx >= cs.Second {
				fire = true
				secondDone = true
			}
			if !fire {
				return nil
			}
			firedOnce = true
			res.Fired = append(res.Fired, c14Fired{OpIndex: idx, Role: p.Role, Op: p.Name, Kind: p.Kind, ID: p.ID})
			sp := &mon.FaultSpec{Err: errInjected, AfterBytes: -1}
			switch cs.Mode {
			case "partial":
				sp.AfterBytes = 10
			case "full":
				sp.AfterFull = true
			}
			return sp
		}
		rdir.Fault = func(idx int, p mon.Point) *mon.FaultSpec {
			sp := decide(idx, p)
			if sp != nil && cs.MergerNth > 0 {
				// the failure arrives only after the foreground applied at least one more batch: whatever the
				// merger took for this merge (a segment id, a view of the root) is no longer the newest
				from := atomic.LoadInt64(&applied)
				for dl := time.Now().Add(1500 * time.Millisecond); atomic.LoadInt64(&applied) == from && time.Now().Before(dl); {
					time.Sleep(2 * time.Millisecond)
				}
				if atomic.LoadInt64(&applied) > from {
					mu.Lock()
					res.Overlapped = true
					mu.Unlock()
				}
			}
			return sp
		}
		return rdir
	})
	cfg = withAsyncError(cfg, func(err error) {
		asyncMu.Lock()
		res.AsyncErrors = append(res.AsyncErrors, err.Error())
		asyncMu.Unlock()
	})
	w, err := bluge.OpenWriter(cfg)
	if err != nil {
		res.OpenErr = err.Error()
		// the fault hit the open path: nothing else to do, but it must be reopenable once cleared
		mu.Lock()
		active = false
		mu.Unlock()
		w, err = bluge.OpenWriter(cfg)
		if err != nil {
			res.OpenErr += " | reopen after clearing: " + err.Error()
			return
		}
	}
	r := rand.New(rand.NewSource(cs.Seed))
	res.Batches = genHistory(r, cs.Batches, 5, "v")
	cur := &model.Index{}
	var held *bluge.Reader
	var heldState []string
	var acks int64
	var cbMu sync.Mutex
	cbNil := map[int]int{} // unsafe mode: batch number -> invocations of its persisted call-back with a nil error
	nHistory := len(res.Batches)
	for i, b := range res.Batches {
		n := i + 1
		if cs.Sticky && n == cs.ClearAt {
			mu.Lock()
			active = false
			mu.Unlock()
		}
		rb := b.ToBluge()
		if cs.Unsafe {
			nn := n
			rb.SetPersistedCallback(func(err error) {
				if err == nil {
					rdir.Mark("ack", nn)
					atomic.AddInt64(&acks, 1)
					cbMu.Lock()
					cbNil[nn]++
					cbMu.Unlock()
				}
			})
		}
		rdir.Mark("call", n)
		err := w.Batch(rb)
		atomic.AddInt64(&applied, 1)
		if err != nil {
			res.BatchErrs[n] = err.Error()
			rdir.Mark("batch-error", n)
		} else if !cs.Unsafe {
			rdir.Mark("ack", n)
		}
		cur = cur.Apply(b)
		// new readers answer according to the batches applied so far (an errored safe batch counts as applied)
		if rd, err := w.Reader(); err != nil {
			res.ReaderBad = append(res.ReaderBad, fmt.Sprintf("after batch %d: Reader(): %v", n, err))
		} else {
			d, err := dumpReader(rd)
			if err != nil || fmt.Sprint(d) != fmt.Sprint(modelDump(cur)) {
				res.ReaderBad = append(res.ReaderBad, fmt.Sprintf("after batch %d: reader shows %v (err %v), applied batches give %v", n, d, err, modelDump(cur)))
			}
			if held == nil && n == 2 {
				held, heldState = rd, modelDump(cur)
			} else {
				_ = rd.Close()
			}
		}
		if cs.Unsafe {
			time.Sleep(time.Duration(r.Intn(600)) * time.Microsecond)
		}
	}
	if cs.MergerNth > 0 {
		// the placement is "the n-th segment the merger writes": if the history was over before the merger
		// got that far, further one-document batches are applied until the fault has fired (at most 120)
		for extra := 0; extra < 120; extra++ {
			mu.Lock()
			f := firedOnce
			mu.Unlock()
			if f {
				break
			}
			n := len(res.Batches) + 1
			id := fmt.Sprintf("fill%d", extra%7)
			xb := &model.Batch{Ops: []model.Op{{Kind: "update", ID: id, Doc: &model.Doc{ID: id, V: fmt.Sprintf("fill-v%d", extra), Text: map[string]string{"t": "fill"}}}}}
			res.Batches = append(res.Batches, xb)
			rb := xb.ToBluge()
			if cs.Unsafe {
				rb.SetPersistedCallback(func(err error) {
					if err == nil {
						rdir.Mark("ack", n)
						cbMu.Lock()
						cbNil[n]++
						cbMu.Unlock()
					}
				})
			}
			rdir.Mark("call", n)
			err := w.Batch(rb)
			atomic.AddInt64(&applied, 1)
			if err != nil {
				res.BatchErrs[n] = err.Error()
				rdir.Mark("batch-error", n)
			} else if !cs.Unsafe {
				rdir.Mark("ack", n)
			}
			cur = cur.Apply(xb)
		}
		nHistory = len(res.Batches)
	}
	// the fault is over: the next acknowledgement covers everything applied before
	mu.Lock()
	active = false
	mu.Unlock()
	n := len(res.Batches) + 1
	fb := &model.Batch{Ops: []model.Op{{Kind: "update", ID: "final", Doc: &model.Doc{ID: "final", V: "final-v", Text: map[string]string{"t": "final"}}}}}
	res.Batches = append(res.Batches, fb)
	rb := fb.ToBluge()
	ackCh := make(chan error, 1)
	if cs.Unsafe {
		rb.SetPersistedCallback(func(err error) {
			if err == nil {
				rdir.Mark("ack", n)
			}
			ackCh <- err
		})
	}
	rdir.Mark("call", n)
	err = w.Batch(rb)
	atomic.AddInt64(&applied, 1)
	if cs.Unsafe && err == nil {
		// no wall-clock verdict: the call-back is missing only if the persister has caught up with the root
		// (nothing is left to persist) and it still has not run; a persister that is merely slow is waited
		// for, one that never catches up is ended by the runner's watchdog
		for waiting := true; waiting; {
			select {
			case err = <-ackCh:
				waiting = false
			case <-time.After(20 * time.Second):
				st := w.VerifIndexWriter().Stats()
				if st.LastPersistedEpoch >= st.CurRootEpoch {
					select {
					case err = <-ackCh:
					case <-time.After(15 * time.Second): // (the statistic is updated a few statements before the call-backs run)
						err = fmt.Errorf("persisted-callback of the final batch not invoked after the fault cleared, although the persister has caught up with the root (epoch %d)", st.CurRootEpoch)
					}
					waiting = false
				}
			}
		}
	} else if err == nil {
		rdir.Mark("ack", n)
	}
	if err != nil {
		res.FinalBatch = err.Error()
	}
	if cs.Unsafe && err == nil {
		// the final batch's call-back has run with a nil error: the persister invokes the call-backs of
		// earlier batches (also those kept from failed rounds) before it, so every batch of the history has
		// been told by now that it is on disk - the acknowledgement that "covers everything applied before"
		cbMu.Lock()
		for k := 1; k <= nHistory; k++ {
			if _, failed := res.BatchErrs[k]; failed {
				continue // (Batch itself refused it)
			}
			if cbNil[k] == 0 {
				res.LostCallbacks = append(res.LostCallbacks, k)
			} else if cbNil[k] > 1 {
				res.RepeatedCallbacks++
			}
		}
		cbMu.Unlock()
		res.CallbacksChecked = true
	}
	cur = cur.Apply(fb)
	// background work goes on after the fault: a dozen more one-document batches must not simply pile up
	// as a dozen more segments (the merge-happy plan keeps a handful), i.e. the merger is still at work
	if res.FinalBatch == "" {
		segCount := func() int {
			rd, err := w.Reader()
			if err != nil {
				return -1
			}
			defer rd.Close()
			return len(rd.VerifSnapshot().Segments())
		}
		waitQuiet(w)
		res.EventsBeforeProbe = len(rdir.Events())
		asyncMu.Lock()
		res.AsyncBeforeProbe = len(res.AsyncErrors)
		asyncMu.Unlock()
		res.ProbeReached = true
		mu.Lock()
		res.OpsBeforeProbe = len(res.Ops)
		mu.Unlock()
		before := segCount()
		const probes = 14
		ok := true
		for k := 0; k < probes && ok; k++ {
			n++
			pb := &model.Batch{Ops: []model.Op{{Kind: "update", ID: fmt.Sprintf("probe%d", k), Doc: &model.Doc{ID: fmt.Sprintf("probe%d", k), V: fmt.Sprintf("probe-v%d", k), Text: map[string]string{"t": "probe"}}}}}
			res.Batches = append(res.Batches, pb)
			rdir.Mark("call", n)
			if err := w.Batch(pb.ToBluge()); err != nil {
				res.FinalBatch = fmt.Sprintf("batch %d after the fault cleared: %v", n, err)
				ok = false
			} else if !cs.Unsafe {
				rdir.Mark("ack", n)
			}
			cur = cur.Apply(pb)
		}
		waitQuiet(w)
		after := segCount()
		// (an idle writer can sit on unmerged segments: its merger is only woken by a newly persisted epoch,
		// and on a loaded machine "quiet" can be reported before the merger got to run: up to eight further
		// batches that change nothing - each a new epoch - with a short wait each)
		for nudge := 0; ok && after >= before+probes-2 && nudge < 8; nudge++ {
			nb := bluge.NewBatch()
			nb.Delete(bluge.Identifier("no-such-document"))
			if w.Batch(nb) != nil {
				break
			}
			waitQuiet(w)
			for dl := time.Now().Add(2 * time.Second); time.Now().Before(dl); {
				if after = segCount(); after < before+probes-2 {
					break
				}
				time.Sleep(50 * time.Millisecond)
			}
		}
		// the hard verdict is structural: the writer's three background goroutines must still exist
		dump := goroutineDump()
		for _, loop := range []string{").introducerLoop(", ").persisterLoop(", ").mergerLoop("} {
			if !strings.Contains(dump, loop) {
				res.DeadLoop = strings.Trim(loop, ").(")
			}
		}
		if ok && before >= 0 && after >= before+probes-2 {
			st := w.VerifIndexWriter().Stats()
			res.MergeProbe = fmt.Sprintf("%d segments before, %d after %d further one-document batches and quiescence (merge-happy options): nothing was merged any more [merger loop begun %d ended %d errors %d, plans %d (none %d, ok %d, err %d), merge introductions %d, persister loop begun %d, persisted epoch %d, root epoch %d]", before, after, probes,
				st.TotFileMergeLoopBeg, st.TotFileMergeLoopEnd, st.TotFileMergeLoopErr, st.TotFileMergePlan, st.TotFileMergePlanNone, st.TotFileMergePlanOk, st.TotFileMergePlanErr, st.TotIntroducedSegmentsMerge, st.TotPersistLoopBeg, st.LastPersistedEpoch, st.CurRootEpoch)
		}
		res.SegmentsAfterProbe = after
	}
	if held != nil {
		if d, err := dumpReader(held); err != nil || fmt.Sprint(d) != fmt.Sprint(heldState) {
			res.ReaderBad = append(res.ReaderBad, fmt.Sprintf("reader held since batch 2 now shows %v (err %v), it showed %v", d, err, heldState))
		}
		_ = held.Close()
	}
	if err := w.Close(); err != nil {
		res.CloseErr = err.Error()
	}
	rdir.Mark("closed", 0)
	res.Events = rdir.Events()
}

func withAsyncError(cfg bluge.Config, f func(error)) bluge.Config {
	ic := cfg.VerifIndexConfig()
	ic.AsyncError = f
	return cfg.VerifWithIndexConfig(ic)
}

func runC14(c *vk.Ctx) {
	c.Rule("a seeded history is first run fault free behind the recording directory to learn its operation sequence; then it is re-run in child processes with an injected error at every chosen operation index: Persist failing before any byte / after a partial write / after the full write, Load, Remove and List failing; transient (once) and sticky (until the harness clears it); pairs of placements in the thorough tier; safe mode and unsafe mode with callbacks. " +
		"Judged: no dead or stuck child; readers after every batch equal the model of applied batches (errored safe batches count as applied); persister/merger faults surface through AsyncError and, in safe mode, through the waiting Batch; the batch issued after the fault cleared is acknowledged; every boundary crash image of the faulty trace recovers to a state >= the last acknowledged batch. distinct non-trivial = distinct (operation, role, item kind, mode, transient/sticky, safe/unsafe) placements whose fault really fired")
	c.Assume("faults are injected at the Directory interface (the os-level variants of a failing Sync/Close are equivalent for bluge to 'Persist failed after the full write', and C13 covers the directory's own behaviour)",
		"progress: a child whose workload does not finish within 45 s is reported with its goroutine dump (wall clock; the workload needs well under a second)")
	nHist := c.Pick(3, 10)
	if vk.DebugOnly("c14-reopen") {
		nHist = 0
	}
	perHist := c.Pick(60, 200)
	for h := 0; h < nHist; h++ {
		seed := vk.SubSeed(c.Seed, fmt.Sprintf("c14-%d", h))
		unsafe := h%3 == 2
		memMerge := h%2 == 0
		nb := c.Pick(10, 16)
		// fault-free reference
		ref := vk.RunChildren(c.Scratch(), "c14run", []interface{}{c14Case{Seed: seed, Batches: nb, Unsafe: unsafe, MemMerge: memMerge, FaultAt: -1, Second: -1, Dir: c.TempDir("c14-ref-")}},
			vk.ChildOpts{PerChild: 1, Parallel: 1, CaseTimeout: 90 * time.Second, RlimitMB: 3072})
		var refRes c14Result
		if ref[0].Out == nil || json.Unmarshal(ref[0].Out, &refRes) != nil || refRes.NoProgress != "" {
			c.Violate("harness-reference-run", fmt.Sprintf("fault-free run failed: %+v", ref[0]), nil)
			continue
		}
		if len(refRes.BatchErrs) > 0 || len(refRes.AsyncErrors) > 0 || len(refRes.ReaderBad) > 0 || refRes.FinalBatch != "" {
			c.Violate("fault-free-run-reports-error", fmt.Sprintf("batch errors %v async %v readers %v final %q", refRes.BatchErrs, refRes.AsyncErrors, refRes.ReaderBad, refRes.FinalBatch), nil)
		}
		byOp := map[string][]int{}
		if refRes.OpsBeforeProbe > 0 && refRes.OpsBeforeProbe < len(refRes.Ops) {
			refRes.Ops = refRes.Ops[:refRes.OpsBeforeProbe] // the merge-alive probe at the end is not part of the history under fault
		}
		for i, o := range refRes.Ops {
			name := strings.TrimSuffix(strings.TrimSuffix(o, ".snp"), ".seg")
			byOp[name] = append(byOp[name], i)
		}
		c.Set(fmt.Sprintf("reference_ops_history_%d", h), len(refRes.Ops))
		mergerSegs := 0
		for _, e := range refRes.Events {
			if e.Op == "persist-begin" && e.Kind == ".seg" && e.Role == "merger" {
				mergerSegs++
			}
		}
		c.Set(fmt.Sprintf("reference_segments_written_by_the_merger_history_%d", h), mergerSegs)
		r := rand.New(rand.NewSource(seed))
		var cases []interface{}
		add := func(cs c14Case) {
			cs.Seed, cs.Batches, cs.Unsafe, cs.MemMerge = seed, nb, unsafe, memMerge
			if cs.MergerNth > 0 {
				// every merge is a file merge, and the history is longer: the merger writes a dozen segments
				cs.MemMerge, cs.Batches = false, 44
			}
			cs.Dir = c.TempDir("c14-")
			cases = append(cases, cs)
		}
		placements := func(op string, n int) []int {
			l := byOp[op]
			if len(l) == 0 {
				return nil
			}
			var out []int
			if len(l) <= n {
				return l
			}
			for k := 0; k < n; k++ {
				out = append(out, l[k*len(l)/n])
			}
			return out
		}
		per := perHist / 10
		for _, k := range placements("persist", per*3) {
			for mi, mode := range []string{"before", "partial", "full"} {
				if (k+mi)%3 == 0 || !c.Quick() {
					add(c14Case{FaultAt: k, Op: "persist", Mode: mode, Second: -1})
				}
			}
			if k%4 == 0 {
				add(c14Case{FaultAt: k, Op: "persist", Mode: []string{"before", "partial", "full"}[k%3], Sticky: true, ClearAt: 2 + r.Intn(nb-1), Second: -1})
			}
		}
		for _, k := range placements("load", per*2) {
			add(c14Case{FaultAt: k, Op: "load", Second: -1})
			if k%3 == 0 {
				add(c14Case{FaultAt: k, Op: "load", Sticky: true, ClearAt: 2 + r.Intn(nb-1), Second: -1})
			}
		}
		for _, k := range placements("remove", per) {
			add(c14Case{FaultAt: k, Op: "remove", Second: -1})
			if k%3 == 0 {
				add(c14Case{FaultAt: k, Op: "remove", Sticky: true, ClearAt: 2 + r.Intn(nb-1), Second: -1})
			}
		}
		for _, k := range placements("list", 2) {
			add(c14Case{FaultAt: k, Op: "list", Second: -1})
		}
		// a merge failing while batches go on: the n-th segment written by the merger fails, and the failure
		// arrives after the foreground has applied one more batch
		for nth := 1; nth <= c.Pick(4, 8); nth++ {
			add(c14Case{FaultAt: 0, Op: "persist", Mode: []string{"before", "partial", "full"}[nth%3], Second: -1, MergerNth: nth})
		}
		if !c.Quick() {
			ops := byOp["persist"]
			for p := 0; p < 60 && len(ops) > 2; p++ {
				a := ops[r.Intn(len(ops))]
				add(c14Case{FaultAt: a, Op: "persist", Mode: []string{"before", "partial", "full"}[p%3], Second: a + 1 + r.Intn(8)})
			}
		}
		results := vk.RunChildren(c.Scratch(), "c14run", cases, vk.ChildOpts{PerChild: 4, Parallel: runtime.NumCPU(), CaseTimeout: 120 * time.Second, RlimitMB: 3072})
		for i, res := range results {
			cs := cases[i].(c14Case)
			c14Judge(c, &cs, &res)
		}
		if h == 0 && len(cases) > 0 {
			c.Sample(map[string]interface{}{"history_seed": seed, "fault_free_operations": len(refRes.Ops), "example_placement": cases[len(cases)/2]})
		}
	}
	c14Reopen(c) // List / Load failing while an index holding data is re-opened
	c.Require("merger_faults_overlapped_by_a_batch", 3)
	c.Require("reopen_faults_fired", 4)
	c.Require("faults_fired", 40)
	c.Require("fired_persist", 20)
	c.Require("fired_load", 5)
	c.Require("final_batch_acknowledged_after_fault", 30)
	c.Require("images_boundary", 200)
}

func c14Judge(c *vk.Ctx, cs *c14Case, res *vk.ChildResult) {
	c.Eval(1)
	wit := map[string]interface{}{"case": cs}
	if res.Faulted() || res.Hung {
		c.Violate("fault-kills-process", fmt.Sprintf("%s fault (%s, sticky=%v) at operation %d: %s", cs.Op, cs.Mode, cs.Sticky, cs.FaultAt, firstLines(res.Panic+res.Died, 14)), wit)
		return
	}
	var out c14Result
	if res.Out == nil || json.Unmarshal(res.Out, &out) != nil {
		c.Violate("harness-child", fmt.Sprintf("no result: %s", res.Err), wit)
		return
	}
	wit["fired"] = out.Fired
	wit["batch_errors"] = out.BatchErrs
	wit["async_errors"] = out.AsyncErrors
	if out.NoProgress != "" {
		c.Violate("no-progress-under-fault", fmt.Sprintf("%s fault (%s, sticky=%v) at operation %d: the workload did not finish; goroutines:\n%s", cs.Op, cs.Mode, cs.Sticky, cs.FaultAt, firstLines(out.NoProgress, 60)), wit)
		return
	}
	if len(out.Fired) == 0 {
		c.Event("placements_that_did_not_fire", 1)
		return
	}
	c.Event("faults_fired", len(out.Fired))
	c.Event("fired_"+cs.Op, 1)
	f0 := out.Fired[0]
	c.Distinct(fmt.Sprintf("%s|%s|%s|%s|sticky=%v|unsafe=%v", cs.Op, f0.Role, f0.Kind, cs.Mode, cs.Sticky, cs.Unsafe))
	if out.OpenErr != "" {
		if strings.Contains(out.OpenErr, "reopen after clearing") {
			c.Violate("cannot-open-after-fault-cleared", out.OpenErr, wit)
			return
		}
		c.Event("open_failed_cleanly_under_fault", 1)
	}
	for _, b := range out.ReaderBad {
		c.Violate("reader-wrong-under-fault", fmt.Sprintf("%s fault (%s) at operation %d: %s", cs.Op, cs.Mode, cs.FaultAt, b), wit)
	}
	if out.DeadLoop != "" {
		c.Violate("background-goroutine-gone-after-fault:"+out.DeadLoop, fmt.Sprintf("%s fault (%s, sticky=%v) at operation %d, cleared afterwards: the open writer's %s goroutine no longer exists (%s)", cs.Op, cs.Mode, cs.Sticky, cs.FaultAt, out.DeadLoop, out.MergeProbe), wit)
	} else if out.MergeProbe != "" {
		// nothing merged after eight further epochs although all three loops are alive: an observation on
		// wall-clock waits, not a verdict
		c.Inconclusive("no-merge-after-8-further-epochs")
		c.Event("merge_probe_slow", 1)
	} else if out.SegmentsAfterProbe > 0 {
		c.Event("merge_alive_probes_after_fault", 1)
	}
	if out.Overlapped {
		c.Event("merger_faults_overlapped_by_a_batch", 1)
	}
	if out.CallbacksChecked {
		c.Event("unsafe_runs_with_every_persisted_callback_checked", 1)
		if out.RepeatedCallbacks > 0 {
			c.Event("persisted_callbacks_invoked_more_than_once", out.RepeatedCallbacks)
		}
		if len(out.LostCallbacks) > 0 {
			c.Violate("persisted-callback-never-invoked", fmt.Sprintf("%s fault (%s, sticky=%v) at operation %d, unsafe mode: the fault is over and the final batch's persisted call-back has run, but the call-backs of batches %v of the history were never invoked with a nil error: their callers are never told that the batches are on disk", cs.Op, cs.Mode, cs.Sticky, cs.FaultAt, out.LostCallbacks), wit)
		}
	}
	if cs.MergerNth > 0 {
		c.Event("merger_nth_faults_fired", 1)
	}
	if out.ProbeReached && len(out.AsyncErrors) > out.AsyncBeforeProbe {
		// the fault is over, a batch has been acknowledged since and the writer was quiet: the further batches
		// of the probe run without any injected fault. Errors that are still being reported then and that are
		// NOT the injected one (which a slow background goroutine may deliver late) are new failures that the
		// cleared fault left behind
		var late []string
		for _, e := range out.AsyncErrors[out.AsyncBeforeProbe:] {
			if !strings.Contains(e, errInjected.Error()) {
				late = append(late, e)
			}
		}
		if len(late) > 0 {
			c.Violate("errors-keep-coming-after-fault-cleared", fmt.Sprintf("%s fault (%s, sticky=%v, merger-nth=%d) at operation %d, long cleared: %d further asynchronous errors (none of them the injected one) during the fault-free batches that followed, e.g. %s", cs.Op, cs.Mode, cs.Sticky, cs.MergerNth, cs.FaultAt, len(late), late[len(late)-1]), wit)
		} else {
			c.Event("injected_error_delivered_late", 1)
		}
	}
	for _, e := range out.Events {
		if e.Op == "mark" && e.Tag == "failed-persist-left-file" {
			c.Violate("failed-persist-leaves-item-on-disk", fmt.Sprintf("Directory.Persist of %s returned an error and left a file of %d bytes under that name (%s fault, %s, operation %d)", mon.FileName(e.Kind, e.ID), e.N, cs.Op, cs.Mode, cs.FaultAt), wit)
			break
		}
	}
	for _, e := range out.Events {
		if e.Op == "mark" && e.Tag == "write-error-swallowed" {
			c.Violate("write-error-not-reported", fmt.Sprintf("a Write into %s failed with the injected error after %d bytes, yet the item writer and Directory.Persist reported success for the truncated file (%s fault, %s, operation %d)", mon.FileName(e.Kind, e.ID), e.N, cs.Op, cs.Mode, cs.FaultAt), wit)
			break
		}
	}
	// surfacing
	bgFault := false
	for _, f := range out.Fired {
		if (f.Role == "persister" || f.Role == "merger") && (f.Op == "persist" || f.Op == "load") {
			// did the operation really fail with the injected error (and not with "closed" because
			// the writer was shutting down at that moment)?
			for _, e := range out.Events {
				if e.Kind == f.Kind && e.ID == f.ID && e.Role == f.Role && (e.Op == "persist-end" || e.Op == "load") && strings.Contains(e.Err, errInjected.Error()) {
					bgFault = true
				}
			}
		}
	}
	if bgFault {
		if len(out.AsyncErrors) == 0 {
			c.Violate("fault-not-surfaced-async", fmt.Sprintf("%s fault (%s) fired in the %s at operation %d but the asynchronous error callback never ran", cs.Op, cs.Mode, f0.Role, f0.OpIndex), wit)
		} else {
			c.Event("surfaced_through_async_error", 1)
		}
	}
	if len(out.BatchErrs) > 0 {
		c.Event("surfaced_through_batch_error", 1)
		if len(out.AsyncErrors) == 0 {
			c.Violate("batch-error-without-async-error", fmt.Sprintf("batches %v returned an error but the asynchronous error callback never ran", out.BatchErrs), wit)
		}
	}
	if !cs.Unsafe {
		// in safe mode a persister fault hits a waiting batch (the single issuer is always waiting when the persister persists a batch's snapshot)
		persisterFault := false
		for _, f := range out.Fired {
			if f.Role == "persister" && (f.Op == "persist" || f.Op == "load") {
				persisterFault = true
			}
		}
		if persisterFault && len(out.BatchErrs) == 0 {
			c.Event("persister_fault_without_waiting_batch", 1)
		}
	}
	if out.FinalBatch != "" {
		c.Violate("no-acknowledgement-after-fault-cleared", fmt.Sprintf("%s fault (%s, sticky=%v) at operation %d: the batch issued after the fault cleared was not acknowledged: %s", cs.Op, cs.Mode, cs.Sticky, cs.FaultAt, out.FinalBatch), wit)
	} else {
		c.Event("final_batch_acknowledged_after_fault", 1)
	}
	if out.CloseErr != "" {
		c.Violate("close-error-after-fault-cleared", out.CloseErr, wit)
	}
	// crash atomicity and durability on the faulty trace: boundary images
	models := []*model.Index{{}}
	cur := models[0]
	for _, b := range out.Batches {
		cur = cur.Apply(b)
		models = append(models, cur)
	}
	all := mon.Images(out.Events, mon.ImageOpts{})
	var images []*mon.Image
	for k, im := range all {
		// (the images of the merge-alive probe that follows the faulty history are left out, except the last)
		if out.EventsBeforeProbe > 0 && im.Pos > out.EventsBeforeProbe && k != len(all)-1 {
			continue
		}
		if im.Class == "boundary" || im.Class == "torn-full" || im.Class == "torn-absent" {
			images = append(images, im)
		}
	}
	// keep the run bounded: the images after the first fault matter most
	if len(images) > 60 {
		images = images[len(images)-60:]
	}
	dirs, results := openImages(c, images, "c14")
	judge := newCrashJudge(c, models)
	for i, im := range images {
		judge.judgeImage(im, &results[i], map[string]interface{}{"case": cs, "fired": out.Fired})
	}
	removeAll(dirs)
	// the final image must hold everything (the final batch was acknowledged)
	if out.FinalBatch == "" && len(images) > 0 {
		last := images[len(images)-1]
		if last.Acked == len(out.Batches) {
			c.Event("final_images_cover_all_applied_batches", 1)
		}
	}
}
