package checks

import (
	"bytes"
	"errors"
	"fmt"
	"io"
	"os"
	"path/filepath"
	"strings"
	"sync"
	"syscall"

	"github.com/RoaringBitmap/roaring"
	"github.com/blugelabs/bluge"
	"github.com/blugelabs/bluge/index"
	segment "github.com/blugelabs/bluge_segment_api"
	ice "github.com/blugelabs/ice"

	"verif/harness/mon"
	"verif/harness/vk"
)

func init() {
	register(&Check{ID: "C13", Level: "fault_enumeration", Run: runC13})
}

// synthetic item: writes Data in chunks, optionally failing after FailAfter bytes or waiting for cancellation.
type c13Item struct {
	data      []byte
	chunk     int
	failAfter int  // <0: never
	cancelAt  int  // <0: never; after that many bytes the writer waits for closeCh and then reports cancellation
	closeNow  func()
	err       error // what a failing item writer returns (nil: errItem)
}

func (it *c13Item) failErr() error {
	if it.err != nil {
		return it.err
	}
	return errItem
}

var errItem = errors.New("item writer failed (injected)")

func (it *c13Item) WriteTo(w io.Writer, closeCh chan struct{}) (int64, error) {
	var n int64
	for off := 0; off < len(it.data) || off == 0; {
		if it.failAfter >= 0 && off >= it.failAfter {
			return n, it.failErr()
		}
		if it.cancelAt >= 0 && off >= it.cancelAt {
			if it.closeNow != nil {
				it.closeNow()
			}
			<-closeCh
			return n, segment.ErrClosed
		}
		end := off + it.chunk
		if end > len(it.data) {
			end = len(it.data)
		}
		if it.failAfter >= 0 && end > it.failAfter {
			end = it.failAfter
			k, _ := w.Write(it.data[off:end])
			return n + int64(k), it.failErr()
		}
		if it.cancelAt >= 0 && end > it.cancelAt {
			end = it.cancelAt
			k, _ := w.Write(it.data[off:end])
			n += int64(k)
			if it.closeNow != nil {
				it.closeNow()
			}
			<-closeCh
			return n, segment.ErrClosed
		}
		k, err := w.Write(it.data[off:end])
		n += int64(k)
		if err != nil {
			return n, err
		}
		off = end
		if len(it.data) == 0 {
			break
		}
	}
	return n, nil
}

type osEvent struct {
	Op   string
	Path string
	N    int64
}

type c13Case struct {
	Kind      string
	Size      int
	Chunk     int
	Pre       string // absent shorter equal longer
	Fault     string // none item-fail cancel os-write os-sync os-close
	FaultAt   int
	RealItem  string `json:",omitempty"` // "", segment, snapshot
	Err       string `json:",omitempty"`
	OSEvents  []osEvent `json:",omitempty"`
	FileAfter string `json:",omitempty"`
}

func pattern(n int, salt byte) []byte {
	b := make([]byte, n)
	for i := range b {
		b[i] = byte(i*31+7) ^ salt
	}
	return b
}

func runC13(c *vk.Ctx) {
	c.Rule("boundary grid: item sizes {0,1,4095,4096,4097,3 buffers,64KiB+1} x chunkings x pre-existing file {absent, shorter, equal length, longer} x faults {none, item writer fails after k bytes (with a plain error and with io.EOF / io.ErrUnexpectedEOF / io.ErrShortWrite / ErrClosed while the channel is open / os.ErrClosed / EINTR / EAGAIN / wrapped forms), cancellation after k bytes, cancellation already in force when Persist is entered (item writer honouring / ignoring it), os write fails after a partial write, os sync fails, os close fails} with k over a boundary set x both item kinds, plus real segment and snapshot items, plus 8 goroutines persisting different items at once; " +
		"oracle: after success the file holds exactly the written bytes and the os-level log (overlay hooks) shows a successful Sync on that file after its last Write/Truncate and before Persist returned; after failure or cancellation nothing is left under the item's name. distinct non-trivial = distinct (kind, size, pre-state, fault, placement) cases that executed")
	c.Assume("os.File operations are observed through a go build -overlay copy of os/file.go and os/file_posix.go (no change to bluge); a returned Sync means durable content",
		"directory entries are durable at operation completion (bluge never syncs the directory)")
	if !mon.OSHooksAvailable {
		c.Violate("harness-no-overlay", "this binary was built without the os overlay; run through ./run.sh C13", nil)
		return
	}
	dir := c.TempDir("c13-")
	var mu sync.Mutex
	var events []osEvent
	var faultOp string
	var faultPath string
	var writeBudget int // bytes the os may still write to faultPath before failing (-1: unlimited)
	errOS := errors.New("injected os error")
	mon.InstallOSHooks(func(op, path string, n int64) error {
		if !strings.HasPrefix(path, dir) {
			return nil
		}
		mu.Lock()
		defer mu.Unlock()
		events = append(events, osEvent{op, filepath.Base(path), n})
		if faultOp == op && path == faultPath {
			faultOp = ""
			return errOS
		}
		return nil
	}, func(path string, b []byte) (int, error) {
		mu.Lock()
		defer mu.Unlock()
		if path != faultPath || writeBudget < 0 {
			return -1, nil
		}
		if len(b) <= writeBudget {
			writeBudget -= len(b)
			return -1, nil
		}
		k := writeBudget
		writeBudget = -1
		faultPath = ""
		return k, errOS
	})
	defer mon.InstallOSHooks(nil, nil)

	fsd := index.NewFileSystemDirectory(dir)
	if err := fsd.Setup(false); err != nil {
		c.Violate("harness-setup", err.Error(), nil)
		return
	}
	sizes := []int{0, 1, 4095, 4096, 4097, 3 * 4096, 65537}
	chunks := []int{1 << 20, 4096, 1000}
	pres := []string{"absent", "shorter", "equal", "longer"}
	id := uint64(0)
	run := func(cs *c13Case, item index.WriterTo, want []byte) {
		id++
		name := fmt.Sprintf("%012x%s", id, cs.Kind)
		path := filepath.Join(dir, name)
		switch cs.Pre {
		case "shorter":
			_ = os.WriteFile(path, pattern(len(want)/2, 0x55), 0o600)
		case "equal":
			_ = os.WriteFile(path, pattern(len(want), 0x55), 0o600)
		case "longer":
			_ = os.WriteFile(path, pattern(len(want)+1+len(want)/3+17, 0x55), 0o600)
		}
		mu.Lock()
		events = nil
		faultOp, faultPath, writeBudget = "", "", -1
		switch cs.Fault {
		case "os-sync":
			faultOp, faultPath = "sync", path
		case "os-close":
			faultOp, faultPath = "close", path
		case "os-write":
			faultPath, writeBudget = path, cs.FaultAt
		}
		mu.Unlock()
		closeCh := make(chan struct{})
		if it, ok := item.(*c13Item); ok && cs.Fault == "cancel" {
			it.closeNow = func() { close(closeCh) }
		}
		if cs.Fault == "cancel-before" || cs.Fault == "cancel-before-ignored" {
			close(closeCh) // the writer is already closing when Persist is entered
		}
		err := fsd.Persist(cs.Kind, id, item, closeCh)
		mu.Lock()
		evs := append([]osEvent(nil), events...)
		faultOp, faultPath, writeBudget = "", "", -1
		mu.Unlock()
		c.Eval(1)
		cs.OSEvents = evs
		if len(cs.OSEvents) > 40 {
			cs.OSEvents = cs.OSEvents[len(cs.OSEvents)-40:]
		}
		got, rerr := os.ReadFile(path)
		exists := rerr == nil
		key := fmt.Sprintf("%s|%d|%s|%s|%d|%s", cs.Kind, cs.Size, cs.Pre, cs.Fault, cs.FaultAt, cs.RealItem)
		c.Event("fault_"+cs.Fault, 1)
		c.Event("pre_"+cs.Pre, 1)
		if err != nil {
			cs.Err = err.Error()
		}
		expectFail := cs.Fault != "none"
		if cs.Fault == "item-fail" && cs.FaultAt > len(want) {
			expectFail = false
		}
		if cs.Fault == "cancel-before-ignored" {
			// the item writer does not look at the channel: success (exact, flushed) and a reported
			// cancellation (nothing left) are both what the property allows
			expectFail = err != nil
		}
		if expectFail && err == nil {
			c.Violate("persist-reports-success-despite-fault:"+cs.Fault, fmt.Sprintf("%+v: Persist returned nil although the %s fault fired", *cs, cs.Fault), cs)
			_ = os.Remove(path)
			return
		}
		if err != nil {
			if !expectFail {
				c.Violate("persist-unexpected-error", fmt.Sprintf("%+v: %v", *cs, err), cs)
			}
			if exists {
				cs.FileAfter = fmt.Sprintf("%d bytes", len(got))
				c.Violate("partial-file-left-after-failure:"+cs.Fault, fmt.Sprintf("Persist failed (%v) but %s still exists with %d bytes (pre-existing: %s)", err, name, len(got), cs.Pre), cs)
				_ = os.Remove(path)
			} else {
				c.Distinct(key)
			}
			return
		}
		// success: exact content
		if !exists {
			c.Violate("persisted-file-missing", fmt.Sprintf("%+v: success reported, file absent", *cs), cs)
			return
		}
		if !bytes.Equal(got, want) {
			k := "persisted-file-not-exact"
			if len(got) > len(want) && bytes.Equal(got[:len(want)], want) {
				k = "persisted-file-has-stale-tail"
			}
			cs.FileAfter = fmt.Sprintf("%d bytes on disk, %d written", len(got), len(want))
			c.Violate(k, fmt.Sprintf("kind %s size %d pre-existing %s: file holds %d bytes, %d were written (prefix equal: %v)", cs.Kind, cs.Size, cs.Pre, len(got), len(want), len(got) >= len(want) && bytes.Equal(got[:len(want)], want)), cs)
		}
		// success: a sync after the last write/truncate on that file, before return
		lastMut, lastSync := -1, -1
		for i, e := range evs {
			if e.Path != name {
				continue
			}
			switch e.Op {
			case "write", "writeat", "truncate":
				lastMut = i
			case "sync":
				lastSync = i
			}
		}
		if lastSync < 0 || lastSync < lastMut {
			c.Violate("success-without-flush", fmt.Sprintf("kind %s size %d: os-level log has no Sync on %s after its last write (events %v)", cs.Kind, cs.Size, name, cs.OSEvents), cs)
		} else {
			c.Event("successes_with_sync_after_last_write", 1)
			c.Distinct(key)
		}
		_ = os.Remove(path)
	}
	boundary := func(n int) []int {
		set := map[int]bool{0: true, 1: true, n / 2: true, n - 1: true, n: true, 4095: true, 4096: true, 4097: true}
		var out []int
		for k := range set {
			if k >= 0 && k <= n {
				out = append(out, k)
			}
		}
		return out
	}
	for _, kind := range []string{index.ItemKindSegment, index.ItemKindSnapshot} {
		for _, size := range sizes {
			data := pattern(size, 0)
			for ci, chunk := range chunks {
				if ci >= 0 {
					for _, pre := range pres {
						run(&c13Case{Kind: kind, Size: size, Chunk: chunk, Pre: pre, Fault: "none"}, &c13Item{data: data, chunk: chunk, failAfter: -1, cancelAt: -1}, data)
					}
				}
			}
			for _, pre := range pres {
				for _, k := range boundary(size) {
					if k < size || size == 0 {
						run(&c13Case{Kind: kind, Size: size, Chunk: 4096, Pre: pre, Fault: "item-fail", FaultAt: k}, &c13Item{data: data, chunk: 4096, failAfter: k, cancelAt: -1}, data)
						run(&c13Case{Kind: kind, Size: size, Chunk: 4096, Pre: pre, Fault: "cancel", FaultAt: k}, &c13Item{data: data, chunk: 4096, failAfter: -1, cancelAt: k}, data)
					}
					if k < size {
						run(&c13Case{Kind: kind, Size: size, Chunk: 1000, Pre: pre, Fault: "os-write", FaultAt: k}, &c13Item{data: data, chunk: 1000, failAfter: -1, cancelAt: -1}, data)
					}
				}
				run(&c13Case{Kind: kind, Size: size, Chunk: 4096, Pre: pre, Fault: "os-sync"}, &c13Item{data: data, chunk: 4096, failAfter: -1, cancelAt: -1}, data)
				run(&c13Case{Kind: kind, Size: size, Chunk: 4096, Pre: pre, Fault: "os-close"}, &c13Item{data: data, chunk: 4096, failAfter: -1, cancelAt: -1}, data)
			// cancellation that is already in force when Persist is entered (Writer.Close racing the merger / persister)
			run(&c13Case{Kind: kind, Size: size, Chunk: 4096, Pre: pre, Fault: "cancel-before"}, &c13Item{data: data, chunk: 4096, failAfter: -1, cancelAt: 0}, data)
			run(&c13Case{Kind: kind, Size: size, Chunk: 4096, Pre: pre, Fault: "cancel-before-ignored"}, &c13Item{data: data, chunk: 4096, failAfter: -1, cancelAt: -1}, data)
			}
		}
	}
	// the item writer fails with error VALUES that code on the way might mistake for "done": end-of-input,
	// cancellation without the channel being closed, interrupted / would-block, wrapped forms
	for _, fe := range []struct {
		name string
		err  error
	}{
		{"io.EOF", io.EOF}, {"wrapped-io.EOF", fmt.Errorf("segment writer: %w", io.EOF)}, {"io.ErrUnexpectedEOF", io.ErrUnexpectedEOF},
		{"io.ErrShortWrite", io.ErrShortWrite}, {"segment.ErrClosed-channel-open", segment.ErrClosed}, {"os.ErrClosed", os.ErrClosed},
		{"EINTR", syscall.EINTR}, {"EAGAIN", syscall.EAGAIN}, {"wrapped-ErrClosed", fmt.Errorf("merge: %w", segment.ErrClosed)},
	} {
		for _, kind := range []string{index.ItemKindSegment, index.ItemKindSnapshot} {
			for _, size := range []int{1, 4097, 3 * 4096} {
				data := pattern(size, 0)
				for _, pre := range []string{"absent", "longer"} {
					for _, k := range []int{0, 1, size / 2, size - 1} {
						if k >= size {
							continue
						}
						run(&c13Case{Kind: kind, Size: size, Chunk: 4096, Pre: pre, Fault: "item-fail-with:" + fe.name, FaultAt: k}, &c13Item{data: data, chunk: 4096, failAfter: k, cancelAt: -1, err: fe.err}, data)
					}
				}
			}
		}
	}
	// real items: an ice segment and a snapshot
	docs := []segment.Document{}
	for i := 0; i < 20; i++ {
		d := bluge.NewDocument(fmt.Sprintf("d%d", i)).AddField(bluge.NewTextField("t", strings.Repeat("lorem ipsum ", 1+i)))
		d.Analyze()
		docs = append(docs, d)
	}
	seg, _, err := ice.New(docs, func(string, int) float32 { return 1 })
	if err != nil {
		c.Violate("harness-segment", err.Error(), nil)
	} else {
		var sb bytes.Buffer
		_, _ = seg.WriteTo(&sb, nil)
		for _, pre := range pres {
			run(&c13Case{Kind: index.ItemKindSegment, Size: sb.Len(), Pre: pre, Fault: "none", RealItem: "segment"}, seg, sb.Bytes())
			run(&c13Case{Kind: index.ItemKindSegment, Size: sb.Len(), Pre: pre, Fault: "os-sync", RealItem: "segment"}, seg, sb.Bytes())
			run(&c13Case{Kind: index.ItemKindSegment, Size: sb.Len(), Pre: pre, Fault: "os-write", FaultAt: sb.Len() / 2, RealItem: "segment"}, seg, sb.Bytes())
		}
	}
	bm := roaring.NewBitmap()
	bm.AddRange(0, 5000)
	var vs []index.VerifSegment
	for i := 0; i < 400; i++ {
		vs = append(vs, index.VerifSegment{ID: uint64(i), Type: "ice", Version: 1, Deleted: bm})
	}
	snap := index.VerifNewSnapshot(9, vs)
	var nb bytes.Buffer
	_, _ = snap.WriteTo(&nb, nil)
	for _, pre := range pres {
		run(&c13Case{Kind: index.ItemKindSnapshot, Size: nb.Len(), Pre: pre, Fault: "none", RealItem: "snapshot"}, snap, nb.Bytes())
		run(&c13Case{Kind: index.ItemKindSnapshot, Size: nb.Len(), Pre: pre, Fault: "os-write", FaultAt: 4097, RealItem: "snapshot"}, snap, nb.Bytes())
		run(&c13Case{Kind: index.ItemKindSnapshot, Size: nb.Len(), Pre: pre, Fault: "os-close", RealItem: "snapshot"}, snap, nb.Bytes())
	}
	// several items persisted AT THE SAME TIME (the persister and the merger do that): each file must hold
	// exactly its own bytes (whatever the directory shares between calls must not be shared between items)
	{
		var wg sync.WaitGroup
		type out struct {
			name string
			want []byte
			err  error
		}
		outs := make([][]out, 8)
		base := id + 1
		id += 8 * 24
		for g := 0; g < 8; g++ {
			wg.Add(1)
			go func(g int) {
				defer wg.Done()
				for k := 0; k < 24; k++ {
					myID := base + uint64(g*24+k)
					kind := []string{index.ItemKindSegment, index.ItemKindSnapshot}[(g+k)%2]
					size := []int{0, 1, 777, 4095, 4096, 4097, 9000, 70001}[(g+3*k)%8]
					data := pattern(size, byte(g*31+k))
					if k%3 == 1 {
						_ = os.WriteFile(filepath.Join(dir, fmt.Sprintf("%012x%s", myID, kind)), pattern(size+100, 0x11), 0o600)
					}
					err := fsd.Persist(kind, myID, &c13Item{data: data, chunk: []int{1 << 20, 4096, 1000, 13}[k%4], failAfter: -1, cancelAt: -1}, make(chan struct{}))
					outs[g] = append(outs[g], out{fmt.Sprintf("%012x%s", myID, kind), data, err})
				}
			}(g)
		}
		wg.Wait()
		for _, l := range outs {
			for _, o := range l {
				c.Eval(1)
				c.Event("concurrent_persists", 1)
				got, rerr := os.ReadFile(filepath.Join(dir, o.name))
				cs := &c13Case{Kind: filepath.Ext(o.name), Size: len(o.want), Fault: "none", Pre: "concurrent"}
				switch {
				case o.err != nil:
					cs.Err = o.err.Error()
					c.Violate("persist-unexpected-error", fmt.Sprintf("8 goroutines persisting different items at once: %s: %v", o.name, o.err), cs)
				case rerr != nil || !bytes.Equal(got, o.want):
					c.Violate("persisted-file-not-exact", fmt.Sprintf("8 goroutines persisting different items at once: %s holds %d bytes (read error %v), %d were written, content equal: %v", o.name, len(got), rerr, len(o.want), bytes.Equal(got, o.want)), cs)
				default:
					c.Distinct(fmt.Sprintf("concurrent|%s|%d", cs.Kind, cs.Size))
				}
				_ = os.Remove(filepath.Join(dir, o.name))
			}
		}
	}
	// a pre-existing item that a reader still holds (shared lock, as the directory's Load takes it): a
	// Persist under that name cannot get its exclusive lock. Whatever it reports, no PARTIAL file may be
	// under the name afterwards: the earlier complete item untouched, or nothing, or (on success) the new one.
	for _, kind := range []string{index.ItemKindSegment, index.ItemKindSnapshot} {
		for _, size := range []int{0, 1, 4097, 12305} {
			for _, preLen := range []int{1, 4096, 20000} {
				id++
				name := fmt.Sprintf("%012x%s", id, kind)
				path := filepath.Join(dir, name)
				old := pattern(preLen, 0x33)
				if err := os.WriteFile(path, old, 0o600); err != nil {
					continue
				}
				hf, err := os.Open(path)
				if err != nil {
					continue
				}
				if err := syscall.Flock(int(hf.Fd()), syscall.LOCK_SH|syscall.LOCK_NB); err != nil {
					_ = hf.Close()
					continue
				}
				data := pattern(size, 0x77)
				perr := fsd.Persist(kind, id, &c13Item{data: data, chunk: 4096, failAfter: -1, cancelAt: -1}, make(chan struct{}))
				held := make([]byte, preLen+16)
				n, _ := hf.ReadAt(held, 0)
				got, rerr := os.ReadFile(path)
				c.Eval(1)
				c.Event("fault_item-held-by-a-reader", 1)
				cs := &c13Case{Kind: kind, Size: size, Pre: fmt.Sprintf("held-%d", preLen), Fault: "held-by-reader"}
				if perr != nil {
					cs.Err = perr.Error()
				}
				switch {
				case perr == nil && rerr == nil && bytes.Equal(got, data):
					c.Distinct(fmt.Sprintf("held|%s|%d|%d|replaced", kind, size, preLen))
				case perr != nil && rerr != nil:
					c.Distinct(fmt.Sprintf("held|%s|%d|%d|removed", kind, size, preLen))
				case perr != nil && rerr == nil && bytes.Equal(got, old) && bytes.Equal(held[:n], old):
					c.Distinct(fmt.Sprintf("held|%s|%d|%d|kept", kind, size, preLen))
				default:
					c.Violate("partial-file-left-after-failure:item-held-by-a-reader", fmt.Sprintf("kind %s, new item %d bytes over an item of %d bytes that a reader holds: Persist returned %v; under the name: %d bytes (read error %v); through the reader's handle: %d bytes", kind, size, preLen, perr, len(got), rerr, n), cs)
				}
				_ = syscall.Flock(int(hf.Fd()), syscall.LOCK_UN)
				_ = hf.Close()
				_ = os.Remove(path)
			}
		}
	}
	c.Exhaustive(true)
	c.Set("exhaustive_scope", "the boundary grid described in rule (all combinations enumerated; the quick tier thins chunkings and the 'equal' pre-state for fault cases)")
	c.Sample(c13Case{Kind: ".snp", Size: 4097, Chunk: 4096, Pre: "longer", Fault: "none"})
	c.Sample(c13Case{Kind: ".seg", Size: 12288, Chunk: 1000, Pre: "absent", Fault: "os-write", FaultAt: 4096})
	c.Require("successes_with_sync_after_last_write", 20)
	c.Require("fault_os-sync", 10)
	c.Require("fault_cancel", 10)
	c.Require("pre_longer", 10)
}
