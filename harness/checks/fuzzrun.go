package checks

import (
	"fmt"
	"os"
	"os/exec"
	"path/filepath"
	"strings"
	"time"

	"github.com/blugelabs/bluge"
	"github.com/blugelabs/bluge/analysis"

	"verif/harness/vk"
)

// helpers used by the native fuzz targets in harness/fuzz

// DumpReaderForFuzz lists the live documents of a reader.
func DumpReaderForFuzz(rd *bluge.Reader) ([]string, error) { return dumpReader(rd) }

// C12ConfigForFuzz is the configuration C12 opens damaged directories with.
func C12ConfigForFuzz(dir, loader string) bluge.Config { return c12Config(dir, loader) }

// C18AnalyzersForFuzz lists the bundled analyzers.
func C18AnalyzersForFuzz() map[string]func() *analysis.Analyzer { return c18Analyzers }

// runGoFuzz runs one native fuzz target of harness/fuzz for a fixed number of executions
// (count based, no wall-clock budget) against the repository this binary was built for.
func runGoFuzz(c *vk.Ctx, target string, execs int) {
	harness := filepath.Join(vk.Root(), "harness")
	repo := os.Getenv("VERIF_REPO_DIR")
	if repo == "" {
		repo = "/repo"
	}
	args := []string{"test", "-tags", "verif", "-run", "^$", "-fuzz", "^" + target + "$", "-fuzztime", fmt.Sprintf("%dx", execs)}
	// (the engine's corpus cache lives under $GOCACHE/fuzz; crashers it writes into the source tree are moved into the replay below)
	if repo != "/repo" {
		mod := filepath.Join(c.TempDir("fuzzmod-"), "go.mod")
		b, err := os.ReadFile(filepath.Join(harness, "go.mod"))
		if err != nil {
			c.Violate("harness-fuzz", err.Error(), nil)
			return
		}
		_ = os.WriteFile(mod, []byte(strings.Replace(string(b), "=> /repo", "=> "+repo, 1)), 0o644)
		sum, _ := os.ReadFile(filepath.Join(harness, "go.sum"))
		_ = os.WriteFile(strings.TrimSuffix(mod, ".mod")+".sum", sum, 0o644)
		args = append([]string{"test", "-modfile=" + mod}, args[1:]...)
	}
	args = append(args, "./fuzz/")
	cmd := exec.Command("go", args...)
	cmd.Dir = harness
	cmd.Env = append(os.Environ(), "GOFLAGS=-mod=mod", "GOPROXY=off", "GOSUMDB=off", "GOTOOLCHAIN=local")
	start := time.Now()
	out, err := cmd.CombinedOutput()
	c.Eval(execs)
	c.Event("fuzz_execs_"+target, execs)
	c.Set("fuzz_seconds_"+target, time.Since(start).Seconds())
	s := string(out)
	// crashers written into the source tree by the fuzzing engine are moved out again
	crashDir := filepath.Join(harness, "fuzz", "testdata", "fuzz", target)
	var crasher string
	if ents, rerr := os.ReadDir(crashDir); rerr == nil {
		for _, e := range ents {
			b, _ := os.ReadFile(filepath.Join(crashDir, e.Name()))
			crasher = string(b)
		}
		_ = os.RemoveAll(filepath.Join(harness, "fuzz", "testdata"))
	}
	if err != nil {
		if strings.Contains(s, "--- FAIL") || strings.Contains(s, "panic:") || crasher != "" {
			c.Violate("fuzz:"+target, fmt.Sprintf("native fuzzing of %s found a failing input:\n%s", target, firstLines(lastLines(s, 40), 40)), map[string]interface{}{"target": target, "failing_input_corpus_file": crasher, "output": lastLines(s, 60)})
			return
		}
		c.Violate("harness-fuzz", fmt.Sprintf("go test -fuzz %s failed to run: %v\n%s", target, err, lastLines(s, 20)), nil)
		return
	}
	c.Distinct("fuzz:" + target)
}

func lastLines(s string, n int) string {
	l := strings.Split(strings.TrimRight(s, "\n"), "\n")
	if len(l) > n {
		l = l[len(l)-n:]
	}
	return strings.Join(l, "\n")
}
