package checks

import (
	"encoding/json"
	"os"
)

func jsonUnmarshal(b []byte, v interface{}) error { return json.Unmarshal(b, v) }

// A case may be executed twice by the child runner (a case whose watchdog fired is run again, alone, in
// a fresh child): every handler therefore starts from a state of its own.

// freshDir empties a directory a handler is going to build an index in.
func freshDir(dir string) {
	_ = os.RemoveAll(dir)
	_ = os.MkdirAll(dir, 0o755)
}

// privateCopy copies a prepared directory image (crash image, damaged index) to a scratch directory
// next to it; the handler works on the copy, so that the image stays what the parent made it.
func privateCopy(dir string) (string, func()) {
	base := os.TempDir()
	if d := os.Getenv("VERIF_SCRATCH"); d != "" {
		base = d
	} else if st, e := os.Stat("/dev/shm"); e == nil && st.IsDir() {
		base = "/dev/shm"
	}
	tmp, err := os.MkdirTemp(base, "verif-img-")
	if err != nil {
		return dir, func() {}
	}
	if err := copyDir(dir, tmp); err != nil {
		_ = os.RemoveAll(tmp)
		return dir, func() {}
	}
	return tmp, func() { _ = os.RemoveAll(tmp) }
}
