package checks

import (
	"encoding/json"
)

func jsonUnmarshal(b []byte, v interface{}) error { return json.Unmarshal(b, v) }
