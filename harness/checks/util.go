package checks

import (
	"encoding/json"
	"os"
	"strings"
	"time"
)

func jsonUnmarshal(b []byte, v interface{}) error { return json.Unmarshal(b, v) }

// A case may be executed twice by the child runner (a case whose watchdog fired is run again, alone, in
// a fresh child): every handler therefore starts from a state of its own.

// freshDir empties a directory a handler is going to build an index in.
func freshDir(dir string) {
	_ = os.RemoveAll(dir)
	_ = os.MkdirAll(dir, 0o755)
}

// privateCopy copies a prepared directory image (crash image, damaged index) to a scratch directory
// next to it; the handler works on the copy, so that the image stays what the parent made it.
func privateCopy(dir string) (string, func()) {
	base := os.TempDir()
	if d := os.Getenv("VERIF_SCRATCH"); d != "" {
		base = d
	} else if st, e := os.Stat("/dev/shm"); e == nil && st.IsDir() {
		base = "/dev/shm"
	}
	tmp, err := os.MkdirTemp(base, "verif-img-")
	if err != nil {
		return dir, func() {}
	}
	if err := copyDir(dir, tmp); err != nil {
		_ = os.RemoveAll(tmp)
		return dir, func() {}
	}
	return tmp, func() { _ = os.RemoveAll(tmp) }
}

// awaitWorkload waits for a workload goroutine to finish. Wall clock alone is no verdict on a loaded
// machine: each time `every` has passed without the workload finishing, the goroutines that run code of the
// index writer are looked at twice, three seconds apart. Only if all of them are blocked on a channel, lock
// or wait group, at the same places both times, is that reported (the dump is returned): a deadlock does
// not resolve with time. Otherwise the wait goes on - a workload that is merely slow finishes; one that
// spins for ever is ended by the child runner's progress watchdog, run again alone in a fresh child with a
// watchdog of five minutes, and reported (Hung) if it stalls there as well.
//
// The workload's own goroutine (the one with workloadFrame on its stack) must be among the blocked ones, inside
// a call into the writer: background goroutines that sit in their select while the harness is busy elsewhere
// are the writer's normal idle state.
func awaitWorkload(done <-chan struct{}, every time.Duration, workloadFrame string) (deadlock string) {
	inWriter := func(dump string) bool {
		for _, blk := range strings.Split(dump, "\n\n") {
			if strings.Contains(blk, workloadFrame) && strings.Contains(blk, "blugelabs/bluge/index.(*Writer).") {
				return true
			}
		}
		return false
	}
	for {
		select {
		case <-done:
			return ""
		case <-time.After(every):
		}
		d1 := goroutineDump()
		select {
		case <-done:
			return ""
		case <-time.After(3 * time.Second):
		}
		d2 := goroutineDump()
		s1, ok1 := writerGoroutines(d1)
		s2, ok2 := writerGoroutines(d2)
		if ok1 && ok2 && s1 != "" && s1 == s2 && inWriter(d1) && inWriter(d2) {
			select {
			case <-done:
				return ""
			default:
			}
			return d2
		}
	}
}
