package checks

import (
	"bytes"
	"fmt"
	"os"
	"path/filepath"

	"github.com/RoaringBitmap/roaring"
	"github.com/blugelabs/bluge/index"

	"verif/harness/vk"
)

// c12RoundTripDir: the round trip through the FILE: a snapshot persisted by the file-system directory under
// an epoch whose file already exists (absent / shorter / longer left-over, e.g. the torn or rejected
// snapshot of an earlier life of that epoch) must be read back from that file as the same snapshot.
func c12RoundTripDir(c *vk.Ctx, n int) {
	r := c.Rand("c12-rt-dir")
	dir := c.TempDir("c12-rtdir-")
	fsd := index.NewFileSystemDirectory(dir)
	if err := fsd.Setup(false); err != nil {
		c.Violate("harness-setup", err.Error(), nil)
		return
	}
	for i := 0; i < n; i++ {
		var segs []index.VerifSegment
		for s := 0; s < []int{0, 1, 3, 40, 500}[i%5]; s++ {
			vs := index.VerifSegment{Type: "ice", Version: 1, ID: uint64(s + 1)}
			if s%3 == 0 {
				bm := roaring.NewBitmap()
				for k := 0; k < 1+r.Intn(50); k++ {
					bm.Add(uint32(r.Intn(100000)))
				}
				vs.Deleted = bm
			}
			segs = append(segs, vs)
		}
		epoch := uint64(i + 1)
		snap := index.VerifNewSnapshot(epoch, segs)
		var enc bytes.Buffer
		if _, err := snap.WriteTo(&enc, nil); err != nil {
			c.Violate("roundtrip-write", err.Error(), nil)
			continue
		}
		path := filepath.Join(dir, fmt.Sprintf("%012x%s", epoch, index.ItemKindSnapshot))
		pre := []string{"absent", "longer-garbage", "shorter", "same-encoding-plus-tail", "much-longer"}[i%5]
		switch pre {
		case "longer-garbage":
			g := make([]byte, enc.Len()+1+r.Intn(200))
			r.Read(g)
			_ = os.WriteFile(path, g, 0o600)
		case "shorter":
			_ = os.WriteFile(path, enc.Bytes()[:enc.Len()/2], 0o600)
		case "same-encoding-plus-tail":
			_ = os.WriteFile(path, append(append([]byte(nil), enc.Bytes()...), make([]byte, 1+r.Intn(64))...), 0o600)
		case "much-longer":
			g := make([]byte, enc.Len()+5000+r.Intn(5000))
			r.Read(g)
			_ = os.WriteFile(path, g, 0o600)
		}
		err := fsd.Persist(index.ItemKindSnapshot, epoch, snap, make(chan struct{}))
		c.Eval(1)
		c.Event("roundtrips_through_the_directory", 1)
		wit := map[string]interface{}{"part": "c12RoundTripDir", "segments": len(segs), "encoded_bytes": enc.Len(), "pre_existing_file": pre}
		if err != nil {
			c.Violate("roundtrip-persist", fmt.Sprintf("Persist of a snapshot (%d segments) over a %s file: %v", len(segs), pre, err), wit)
			continue
		}
		got, err := os.ReadFile(path)
		if err != nil {
			c.Violate("roundtrip-file-missing", err.Error(), wit)
			continue
		}
		if !bytes.Equal(got, enc.Bytes()) {
			c.Violate("roundtrip-file-differs", fmt.Sprintf("snapshot of %d segments persisted over a %s file: the file holds %d bytes, the encoding has %d (prefix equal: %v): it does not read back as the snapshot that was written", len(segs), pre, len(got), enc.Len(), len(got) >= enc.Len() && bytes.Equal(got[:enc.Len()], enc.Bytes())), wit)
			_ = os.Remove(path)
			continue
		}
		back := index.VerifNewSnapshot(0, nil)
		if _, err := back.ReadFrom(bytes.NewReader(got[:len(got)-4])); err != nil || len(back.VerifSegments()) != len(segs) {
			c.Violate("roundtrip-read", fmt.Sprintf("the persisted file does not decode: %v (%d of %d segments)", err, len(back.VerifSegments()), len(segs)), wit)
		} else {
			c.Distinct(fmt.Sprintf("rtdir|%s|%d", pre, len(segs)))
		}
		_ = os.Remove(path)
	}
}
