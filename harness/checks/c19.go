package checks

import (
	"fmt"
	"math"
	"math/rand"
	"runtime"
	"sync"

	"github.com/blugelabs/bluge/index/mergeplan"

	"verif/harness/vk"
)

func init() {
	register(&Check{ID: "C19", Level: "exploration", Run: runC19, Replay: replayC19})
}

type mpSeg struct {
	Id         uint64 `json:"id"`
	Full, Live int64
}

func (s *mpSeg) ID() uint64      { return s.Id }
func (s *mpSeg) FullSize() int64 { return s.Full }
func (s *mpSeg) LiveSize() int64 { return s.Live }

type mpOpts struct {
	MaxSegmentsPerTier   int
	MaxSegmentSize       int64
	TierGrowth           float64
	SegmentsPerMergeTask int
	FloorSegmentSize     int64
	ReclaimDeletesWeight float64
}

func (o mpOpts) real() mergeplan.Options {
	return mergeplan.Options{MaxSegmentsPerTier: o.MaxSegmentsPerTier, MaxSegmentSize: o.MaxSegmentSize,
		TierGrowth: o.TierGrowth, SegmentsPerMergeTask: o.SegmentsPerMergeTask, FloorSegmentSize: o.FloorSegmentSize,
		ReclaimDeletesWeight: o.ReclaimDeletesWeight}
}

func defaultMpOpts() mpOpts {
	d := mergeplan.DefaultMergePlanOptions
	return mpOpts{d.MaxSegmentsPerTier, d.MaxSegmentSize, d.TierGrowth, d.SegmentsPerMergeTask, d.FloorSegmentSize, d.ReclaimDeletesWeight}
}

type mpCase struct {
	Opts mpOpts
	Segs []*mpSeg
}

// refBudget is the harness' own statement of the logarithmic staircase budget:
// tiers of width MaxSegmentsPerTier whose segment size grows by TierGrowth.
func refBudget(total, first int64, o mpOpts) int {
	tier := first
	if tier < 1 {
		tier = 1
	}
	w := o.MaxSegmentsPerTier
	if w < 1 {
		w = 1
	}
	g := o.TierGrowth
	if g < 1 {
		g = 1
	}
	n := 0
	for total > 0 {
		in := float64(total) / float64(tier)
		if in < float64(w) {
			n += int(math.Ceil(in))
			break
		}
		n += w
		total -= int64(w) * tier
		nt := int64(float64(tier) * g)
		if nt <= tier { // growth 1: linear staircase, keep going
			nt = tier
		}
		tier = nt
	}
	return n
}

type stepAbort struct{}

// planCounted calls mergeplan.Plan with a step counter on the scoring call-back; more
// than limit scoring calls aborts the call (logical-step non-termination oracle).
func planCounted(in []mergeplan.Segment, o mpOpts, limit int64) (p *mergeplan.MergePlan, steps int64, aborted bool, err error) {
	ro := o.real()
	ro.ScoreSegments = func(s []mergeplan.Segment, oo *mergeplan.Options) float64 {
		steps++
		if steps > limit {
			panic(stepAbort{})
		}
		return mergeplan.ScoreSegments(s, oo)
	}
	defer func() {
		if r := recover(); r != nil {
			if _, ok := r.(stepAbort); ok {
				aborted = true
				return
			}
			panic(r)
		}
	}()
	p, err = mergeplan.Plan(in, &ro)
	return
}

func planDesc(p *mergeplan.MergePlan) [][]uint64 {
	if p == nil {
		return nil
	}
	out := make([][]uint64, 0, len(p.Tasks))
	for _, t := range p.Tasks {
		l := make([]uint64, 0, len(t.Segments))
		for _, s := range t.Segments {
			l = append(l, s.ID())
		}
		out = append(out, l)
	}
	return out
}

func genMpOpts(r *rand.Rand) mpOpts {
	o := defaultMpOpts()
	switch r.Intn(5) {
	case 0:
		o.MaxSegmentSize = int64(10 + r.Intn(2000))
		o.FloorSegmentSize = int64(1 + r.Intn(50))
	case 1:
		o.MaxSegmentsPerTier = 1 + r.Intn(12)
		o.SegmentsPerMergeTask = 2 + r.Intn(12)
		o.TierGrowth = 1 + r.Float64()*12
		o.MaxSegmentSize = int64(100 + r.Intn(100000))
		o.FloorSegmentSize = int64(1 + r.Intn(3000))
	case 2:
		// around the defaults
		o.MaxSegmentsPerTier = 8 + r.Intn(5)
		o.SegmentsPerMergeTask = 8 + r.Intn(5)
		o.TierGrowth = 8 + r.Float64()*4
		o.MaxSegmentSize = 4000000 + int64(r.Intn(2000001))
		o.FloorSegmentSize = int64(1500 + r.Intn(1001))
		o.ReclaimDeletesWeight = r.Float64() * 3
	case 3:
		o.MaxSegmentSize = int64(2 + r.Intn(12)) // tiny and odd maxima: the half-size rule at integer boundaries
		o.FloorSegmentSize = int64(1 + r.Intn(3))
		o.SegmentsPerMergeTask = 2 + r.Intn(4)
		o.MaxSegmentsPerTier = 1 + r.Intn(4)
	}
	return o
}

func genMpSegs(r *rand.Rand, o mpOpts, n int) []*mpSeg {
	segs := make([]*mpSeg, 0, n)
	dup := int64(r.Intn(int(o.MaxSegmentSize/2) + 1))
	for i := 0; i < n; i++ {
		var full int64
		switch r.Intn(6) {
		case 0:
			full = int64(r.Intn(10))
		case 1:
			full = int64(r.Int63n(o.MaxSegmentSize + 10))
		case 2:
			full = o.MaxSegmentSize/2 + int64(r.Intn(5)) - 2
		case 3:
			full = dup // duplicate sizes
		case 4:
			full = o.MaxSegmentSize + int64(r.Intn(1000)) // beyond the maximum
		default:
			full = int64(r.Intn(3000))
		}
		if full < 0 {
			full = 0
		}
		live := full
		switch r.Intn(4) {
		case 0:
			if full > 0 {
				live = r.Int63n(full + 1)
			}
		case 1:
			if r.Intn(4) == 0 {
				live = 0
			}
		}
		segs = append(segs, &mpSeg{Id: uint64(i + 1), Full: full, Live: live})
	}
	// ids are unique but not in size order
	r.Shuffle(len(segs), func(i, j int) { segs[i].Id, segs[j].Id = segs[j].Id, segs[i].Id })
	return segs
}

// checkPlanCase runs the well-formedness oracle on one input. Returns a short class key.
func checkPlanCase(c *vk.Ctx, mc *mpCase) {
	n := len(mc.Segs)
	in := make([]mergeplan.Segment, n)
	inSet := make(map[mergeplan.Segment]bool, n)
	for i, s := range mc.Segs {
		in[i] = s
		inSet[s] = true
	}
	limit := int64(n)*int64(n) + int64(n) + 16
	p, steps, aborted, err := planCounted(in, mc.Opts, limit)
	c.Eval(1)
	c.EventMax("max_scoring_steps_per_plan", steps)
	if aborted {
		c.Violate("plan-nontermination", fmt.Sprintf("Plan exceeded %d scoring steps on %d segments (logical-step bound n^2+n+16)", limit, n), mc)
		return
	}
	if err != nil {
		c.Violate("plan-error", "Plan returned an error on sane options: "+err.Error(), mc)
		return
	}
	if p == nil || len(p.Tasks) == 0 {
		c.Event("plans_without_tasks", 1)
		return
	}
	c.Event("plans_with_tasks", 1)
	// determinism on the same input
	p2, _, _, _ := planCounted(in, mc.Opts, limit)
	d1, d2 := fmt.Sprint(planDesc(p)), fmt.Sprint(planDesc(p2))
	if d1 != d2 {
		c.Violate("plan-nondeterministic", "two calls on the same input gave "+d1+" and "+d2, mc)
	}
	seen := map[mergeplan.Segment]bool{}
	multi := false
	for ti, t := range p.Tasks {
		var sum int64
		for _, s := range t.Segments {
			if !inSet[s] {
				c.Violate("plan-foreign-segment", fmt.Sprintf("task %d holds a segment (id %d) that is not in the input", ti, s.ID()), mc)
			}
			if seen[s] {
				c.Violate("plan-segment-in-two-tasks", fmt.Sprintf("segment id %d is placed twice (plan %s)", s.ID(), d1), mc)
			}
			seen[s] = true
			sum += s.LiveSize()
			if 2*s.LiveSize() > mc.Opts.MaxSegmentSize {
				c.Violate("plan-touches-big-segment", fmt.Sprintf("segment id %d live=%d is above half of MaxSegmentSize=%d (plan %s)", s.ID(), s.LiveSize(), mc.Opts.MaxSegmentSize, d1), mc)
			}
		}
		if sum > mc.Opts.MaxSegmentSize {
			c.Violate("plan-task-too-big", fmt.Sprintf("task %d combines live=%d > MaxSegmentSize=%d (plan %s)", ti, sum, mc.Opts.MaxSegmentSize, d1), mc)
		}
		if len(t.Segments) >= 2 {
			multi = true
		}
		c.Event("tasks", 1)
		if sum == 0 {
			c.Event("all_empty_tasks", 1)
		}
	}
	if multi {
		c.DistinctHash(vk.Hash64(vk.JSON(mc) + d1))
	}
	if n <= 12 {
		c.Sample(map[string]interface{}{"opts": mc.Opts, "segments": mc.Segs, "plan": planDesc(p)})
	}
}

type mpSimCase struct {
	Opts     mpOpts
	Arrivals int
	Seed     int64
}

// simulate runs arrivals / deletions / plan execution on sizes only.
func simulate(c *vk.Ctx, sc mpSimCase) (finalSegs int) {
	r := rand.New(rand.NewSource(sc.Seed))
	o := sc.Opts
	var segs []*mpSeg
	next := uint64(1)
	const maxRounds = 60
	for a := 0; a < sc.Arrivals; a++ {
		sz := int64(1 + r.Intn(50))
		segs = append(segs, &mpSeg{Id: next, Full: sz, Live: sz})
		next++
		if r.Intn(3) == 0 {
			s := segs[r.Intn(len(segs))]
			if s.Live > 0 {
				s.Live -= r.Int63n(s.Live + 1)
			}
		}
		keep := segs[:0]
		for _, s := range segs {
			if s.Live > 0 { // the introducer drops zero-live segments
				keep = append(keep, s)
			}
		}
		segs = keep
		rounds := 0
		for ; rounds < maxRounds; rounds++ {
			in := make([]mergeplan.Segment, len(segs))
			for i, s := range segs {
				in[i] = s
			}
			n := int64(len(in))
			p, _, aborted, err := planCounted(in, o, n*n+n+16)
			c.Event("sim_plans", 1)
			if aborted || err != nil {
				c.Violate("sim-plan-failed", fmt.Sprintf("aborted=%v err=%v after %d arrivals", aborted, err, a+1), sc)
				return len(segs)
			}
			if p == nil || len(p.Tasks) == 0 {
				break
			}
			for _, t := range p.Tasks {
				var live int64
				drop := map[uint64]bool{}
				for _, s := range t.Segments {
					live += s.LiveSize()
					drop[s.ID()] = true
				}
				keep := make([]*mpSeg, 0, len(segs))
				for _, s := range segs {
					if !drop[s.Id] {
						keep = append(keep, s)
					}
				}
				segs = keep
				if live > 0 {
					segs = append(segs, &mpSeg{Id: next, Full: live, Live: live})
					next++
				}
				c.Event("sim_tasks_executed", 1)
			}
		}
		c.EventMax("sim_max_rounds_to_quiescence", int64(rounds))
		if rounds >= maxRounds {
			c.Violate("sim-no-quiescence", fmt.Sprintf("plan/execute did not reach 'no work' within %d rounds after %d arrivals (%d segments)", maxRounds, a+1, len(segs)), sc)
			return len(segs)
		}
		// budget at quiescence, computed by the harness' own staircase
		var elig int
		var eligLive int64
		minLive := int64(math.MaxInt64)
		for _, s := range segs {
			if s.Live < minLive {
				minLive = s.Live
			}
			if s.Live < o.MaxSegmentSize/2 {
				elig++
				eligLive += s.Live
			}
		}
		if len(segs) > 1 {
			first := minLive
			if first < o.FloorSegmentSize {
				first = o.FloorSegmentSize
			}
			b := refBudget(eligLive, first, o)
			c.Event("sim_quiescent_states_checked", 1)
			if elig > b {
				c.Violate("sim-over-budget", fmt.Sprintf("%d mergeable segments at quiescence > logarithmic budget %d after %d arrivals", elig, b, a+1), sc)
				return len(segs)
			}
		}
	}
	return len(segs)
}

func simOpts(k int) mpOpts {
	o := defaultMpOpts()
	switch k % 7 {
	case 4: // fractional growth factors (the staircase of tier sizes is not integral)
		o.TierGrowth = 1.5
		o.MaxSegmentsPerTier = 3
		o.SegmentsPerMergeTask = 4
		o.FloorSegmentSize = 8
		o.MaxSegmentSize = 200000
	case 5:
		o.TierGrowth = 2.5
		o.MaxSegmentsPerTier = 4
		o.SegmentsPerMergeTask = 5
		o.FloorSegmentSize = 50
	case 6:
		o.TierGrowth = 3.7
		o.MaxSegmentsPerTier = 2
		o.SegmentsPerMergeTask = 3
		o.FloorSegmentSize = 3
		o.MaxSegmentSize = 50000
	case 1:
		o.MaxSegmentSize = 5000
		o.FloorSegmentSize = 20
	case 2:
		o.MaxSegmentsPerTier = 3
		o.SegmentsPerMergeTask = 4
		o.TierGrowth = 3
		o.FloorSegmentSize = 10
		o.MaxSegmentSize = 100000
	case 3:
		o.FloorSegmentSize = 1
		o.MaxSegmentsPerTier = 2
		o.TierGrowth = 2
		o.SegmentsPerMergeTask = 3
		o.MaxSegmentSize = 1000000
	}
	return o
}

func runC19(c *vk.Ctx) {
	c.Rule("inputs: seeded segment lists (sizes 0..beyond max, deleted fractions, duplicate sizes, up to thousands of segments) x option sets around the defaults and at small/odd maxima; " +
		"non-trivial+distinct = distinct (options, segments, plan) whose plan has a task of >= 2 segments; simulation: sizes-only arrival/delete/execute histories judged at every quiescent point")
	c.Assume("segment ids are unique within one input (as in the index)",
		"termination is decided on logical steps: scoring call-backs per Plan call <= n^2+n+16",
		"the logarithmic budget is re-computed by the harness' own staircase (MaxSegmentsPerTier wide tiers growing by TierGrowth from max(FloorSegmentSize, smallest live size))")
	nInputs := c.Pick(20000, 1500000)
	nBig := c.Pick(6, 120)
	nSim := c.Pick(120, 6000)
	workers := runtime.NumCPU()
	var wg sync.WaitGroup
	for w := 0; w < workers; w++ {
		wg.Add(1)
		go func(w int) {
			defer wg.Done()
			r := c.Rand(fmt.Sprintf("plan-%d", w))
			for i := w; i < nInputs; i += workers {
				o := genMpOpts(r)
				n := r.Intn(40)
				if r.Intn(50) == 0 {
					n = 40 + r.Intn(300)
				}
				checkPlanCase(c, &mpCase{Opts: o, Segs: genMpSegs(r, o, n)})
			}
			for i := w; i < nBig; i += workers {
				o := genMpOpts(r)
				checkPlanCase(c, &mpCase{Opts: o, Segs: genMpSegs(r, o, 1000+r.Intn(4001))})
				c.Event("inputs_with_thousands_of_segments", 1)
			}
		}(w)
	}
	wg.Wait()
	// simulation
	type res struct{ arrivals, segs int }
	resCh := make(chan res, nSim)
	var wg2 sync.WaitGroup
	sem := make(chan struct{}, workers)
	arrivalsSet := []int{50, 200, 1000}
	if !c.Quick() {
		arrivalsSet = []int{50, 200, 1000, 3000}
	}
	for h := 0; h < nSim; h++ {
		wg2.Add(1)
		sem <- struct{}{}
		go func(h int) {
			defer wg2.Done()
			defer func() { <-sem }()
			sc := mpSimCase{Opts: simOpts(h), Arrivals: arrivalsSet[h%len(arrivalsSet)], Seed: vk.SubSeed(c.Seed, fmt.Sprintf("sim-%d", h))}
			if sc.Arrivals >= 3000 && h%16 != 3 {
				sc.Arrivals = 1000
			}
			n := simulate(c, sc)
			c.Eval(1)
			c.Distinct(fmt.Sprintf("sim:%d:%d", h%7, sc.Arrivals))
			resCh <- res{sc.Arrivals, n}
			if h < 3 {
				c.Sample(map[string]interface{}{"simulation": sc, "final_segments": n})
			}
		}(h)
	}
	wg2.Wait()
	close(resCh)
	maxBy := map[int]int{}
	for r := range resCh {
		if r.segs > maxBy[r.arrivals] {
			maxBy[r.arrivals] = r.segs
		}
	}
	c.Set("sim_max_final_segments_by_arrivals", maxBy)
	// the same clause with a real writer applying the plans (and one injected merge failure in every other run)
	for i := 0; i < c.Pick(8, 120); i++ {
		c19RealWriter(c, i)
	}
	c.Require("real_writer_histories", 4)
	c.Require("plans_with_tasks", 100)
	c.Require("sim_quiescent_states_checked", 1000)
	c.Require("inputs_with_thousands_of_segments", 1)
}

func replayC19(c *vk.Ctx, witness []byte) {
	var mc mpCase
	if jsonUnmarshal(witness, &mc) == nil && len(mc.Segs) > 0 {
		checkPlanCase(c, &mc)
		return
	}
	var sc mpSimCase
	if jsonUnmarshal(witness, &sc) == nil && sc.Arrivals > 0 {
		simulate(c, sc)
		c.Eval(1)
		return
	}
	runC19(c)
}
