package checks

import (
	"fmt"
	"math/rand"
	"strings"

	"github.com/blugelabs/bluge"

	"verif/harness/bx"
	"verif/harness/model"
	"verif/harness/vk"
)

// c17MultiValued: the scored field given as SEVERAL values of the same name. Its length is the number of its
// tokens, whatever the values' boundaries and whatever the field records besides (positions, highlighting
// data): a document whose tokens are spread over 2..4 values scores exactly as its twin holding the same
// tokens in one value, exactly as in an index that records no positions, and the length law holds between
// a multi-valued short field and a single-valued longer one.
func c17MultiValued(c *vk.Ctx, i int) {
	r := rand.New(rand.NewSource(vk.SubSeed(c.Seed, fmt.Sprintf("c17-mv-%d", i))))
	tf := 1 + r.Intn(3)
	short := tf + 1 + r.Intn(4)
	long := short + 2 + r.Intn(12)
	split := func(toks []string) [][]string {
		k := 2 + r.Intn(3)
		if k > len(toks) {
			k = len(toks)
		}
		cuts := r.Perm(len(toks) - 1)[:k-1]
		at := map[int]bool{}
		for _, x := range cuts {
			at[x+1] = true
		}
		var out [][]string
		var cur []string
		for p, t := range toks {
			if at[p] && len(cur) > 0 {
				out = append(out, cur)
				cur = nil
			}
			cur = append(cur, t)
		}
		return append(out, cur)
	}
	type d struct {
		id   string
		vals [][]string
	}
	shuffled := func(toks []string) []string {
		r.Shuffle(len(toks), func(a, b int) { toks[a], toks[b] = toks[b], toks[a] })
		return toks
	}
	docs := []d{
		{"mv-short", split(shuffled(append(rep("a", tf), rep("x", short-tf)...)))},
		{"sv-long", [][]string{shuffled(append(rep("a", tf), rep("x", long-tf)...))}},
	}
	for k := 0; k < 2+r.Intn(5); k++ {
		toks := shuffled(append(rep("a", r.Intn(3)), rep("y", 2+r.Intn(6))...))
		if r.Intn(2) == 0 {
			docs = append(docs, d{fmt.Sprintf("fill%d", k), split(toks)})
		} else {
			docs = append(docs, d{fmt.Sprintf("fill%d", k), [][]string{toks}})
		}
	}
	nShortVals := len(docs[0].vals)
	r.Shuffle(len(docs), func(a, b int) { docs[a], docs[b] = docs[b], docs[a] })
	perBatch := 1 + r.Intn(len(docs))
	build := func(joined, positions bool) (*bluge.Writer, *bluge.Reader) {
		w, err := bluge.OpenWriter(bx.NoMerge(bluge.InMemoryOnlyConfig()))
		if err != nil {
			return nil, nil
		}
		b := bluge.NewBatch()
		for k, x := range docs {
			doc := bluge.NewDocument(x.id)
			vals := x.vals
			if joined {
				var all []string
				for _, v := range x.vals {
					all = append(all, v...)
				}
				vals = [][]string{all}
			}
			for _, v := range vals {
				f := bluge.NewTextField("t", strings.Join(v, " ")).WithAnalyzer(model.Analyzer())
				if positions {
					if i%2 == 0 {
						f = f.SearchTermPositions()
					} else {
						f = f.HighlightMatches()
					}
				}
				doc.AddField(f)
			}
			b.Update(doc.ID(), doc)
			if k%perBatch == perBatch-1 {
				_ = w.Batch(b)
				b = bluge.NewBatch()
			}
		}
		_ = w.Batch(b)
		rd, err := w.Reader()
		if err != nil {
			_ = w.Close()
			return nil, nil
		}
		return w, rd
	}
	type variant struct {
		name              string
		joined, positions bool
	}
	variants := []variant{{"several values, positions recorded", false, true}, {"several values, no positions", false, false}, {"the same tokens as one value, positions recorded", true, true}}
	wit := map[string]interface{}{"part": "c17MultiValued", "docs": docs, "tf": tf, "short": short, "long": long}
	var scores []map[string]float64
	for _, v := range variants {
		w, rd := build(v.joined, v.positions)
		if w == nil {
			return
		}
		s, ex, err := scoresOf(rd, bluge.NewTermQuery("a").SetField("t"), true)
		c.Eval(1)
		if err != nil {
			c.Violate("harness-search", err.Error(), wit)
		}
		for id, e := range ex {
			checkExplanation(c, e, v.name+"/"+id, wit)
		}
		scores = append(scores, s)
		_ = rd.Close()
		_ = w.Close()
		if !(s["mv-short"] > s["sv-long"]) {
			c.Violate("law-length:multi-valued-field", fmt.Sprintf("%s; same tf %d: the field of %d tokens (in %d values) scores %v, the field of %d tokens scores %v", v.name, tf, short, nShortVals, s["mv-short"], long, s["sv-long"]), wit)
		}
	}
	for k := 1; k < len(scores); k++ {
		for id, s := range scores[0] {
			if !relClose(s, scores[k][id], 1e-12) {
				c.Violate("score-depends-on-value-boundaries-or-recorded-positions", fmt.Sprintf("term query a on field t, document %s: %v with %s, %v with %s (same tokens, same statistics)", id, s, variants[0].name, scores[k][id], variants[k].name), wit)
				break
			}
		}
	}
	c.Event("multi_valued_field_twins", 1)
	c.DistinctHash(vk.Hash64(fmt.Sprintf("mv|%d|%d|%d|%d", tf, short, long, len(docs))))
}
