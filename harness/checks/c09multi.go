package checks

import (
	"context"
	"fmt"
	"math/rand"
	"sort"

	"github.com/blugelabs/bluge"
	"github.com/blugelabs/bluge/index"
	"github.com/blugelabs/bluge/search"

	"verif/harness/bx"
	"verif/harness/vk"
)

// c09Multi: the same windows and After chains through bluge.MultiSearch over 2..4 readers that each hold a
// part of the documents (the same document NUMBERS mean different documents in different readers): under a
// total order the window [from, from+n) of the union's ranking must come back, and an After chain must
// enumerate the union exactly once.
func c09Multi(c *vk.Ctx, i int) {
	r := rand.New(rand.NewSource(vk.SubSeed(c.Seed, fmt.Sprintf("c09-multi-%d", i))))
	total := 150 + r.Intn(450)
	nIdx := 2 + r.Intn(3)
	type dd struct {
		id string
		n  int
		k  string
	}
	perm := r.Perm(total)
	var docs []dd
	var writers []*bluge.Writer
	var readers []*bluge.Reader
	batches := make([]*index.Batch, nIdx)
	for x := 0; x < nIdx; x++ {
		w, err := bluge.OpenWriter(bx.NoMerge(bluge.InMemoryOnlyConfig()))
		if err != nil {
			c.Violate("harness-open", err.Error(), nil)
			return
		}
		defer w.Close()
		writers = append(writers, w)
		batches[x] = bluge.NewBatch()
	}
	for x := 0; x < total; x++ {
		d := dd{id: fmt.Sprintf("m%05d", x), n: perm[x], k: fmt.Sprintf("k%d", perm[x]%7)}
		docs = append(docs, d)
		doc := bluge.NewDocument(d.id).AddField(bluge.NewNumericField("n", float64(d.n)).Sortable()).
			AddField(bluge.NewKeywordField("k", d.k).Sortable()).AddField(bluge.NewKeywordField("all", "x"))
		at := r.Intn(nIdx)
		batches[at].Update(doc.ID(), doc)
		if r.Intn(40) == 0 {
			if err := writers[at].Batch(batches[at]); err != nil {
				c.Violate("harness-batch", err.Error(), nil)
				return
			}
			batches[at] = bluge.NewBatch()
		}
	}
	for x, w := range writers {
		if err := w.Batch(batches[x]); err != nil {
			c.Violate("harness-batch", err.Error(), nil)
			return
		}
		rd, err := w.Reader()
		if err != nil {
			c.Violate("harness-reader", err.Error(), nil)
			return
		}
		defer rd.Close()
		readers = append(readers, rd)
	}
	type ord struct {
		name string
		so   func() search.SortOrder
		less func(a, b dd) bool
	}
	orders := []ord{
		{"n asc", func() search.SortOrder { return search.SortOrder{search.SortBy(search.Field("n"))} }, func(a, b dd) bool { return a.n < b.n }},
		{"n desc", func() search.SortOrder { return search.SortOrder{search.SortBy(search.Field("n")).Desc()} }, func(a, b dd) bool { return a.n > b.n }},
		{"k asc, _id desc", func() search.SortOrder {
			return search.SortOrder{search.SortBy(search.Field("k")), search.SortBy(search.Field("_id")).Desc()}
		}, func(a, b dd) bool {
			if a.k != b.k {
				return a.k < b.k
			}
			return a.id > b.id
		}},
		{"k desc, n asc", func() search.SortOrder {
			return search.SortOrder{search.SortBy(search.Field("k")).Desc(), search.SortBy(search.Field("n"))}
		}, func(a, b dd) bool {
			if a.k != b.k {
				return a.k > b.k
			}
			return a.n < b.n
		}},
	}
	ask := func(req bluge.SearchRequest) ([]bx.Hit, error) {
		it, err := bluge.MultiSearch(context.Background(), req, readers...)
		if err != nil {
			return nil, err
		}
		return bx.Collect(it, false)
	}
	pairs := [][2]int{{10, 0}, {5, 7}, {11, total / 2}, {total, 0}, {30, total - 10}, {1, total - 1}, {total + 3, 2}, {100, 100}}
	for _, o := range orders {
		sorted := append([]dd(nil), docs...)
		sort.Slice(sorted, func(a, b int) bool { return o.less(sorted[a], sorted[b]) })
		for _, p := range pairs {
			n, from := p[0], p[1]
			hits, err := ask(bluge.NewTopNSearch(n, bluge.NewTermQuery("x").SetField("all")).SetFrom(from).SortByCustom(o.so()))
			c.Eval(1)
			wit := map[string]interface{}{"part": "c09Multi", "i": i, "docs": total, "indexes": nIdx, "n": n, "from": from, "sort": o.name}
			if err != nil {
				c.Violate("topn-error:multisearch", err.Error(), wit)
				continue
			}
			lo, hi := from, from+n
			if lo > total {
				lo = total
			}
			if hi > total {
				hi = total
			}
			var want []string
			for _, d := range sorted[lo:hi] {
				want = append(want, d.id)
			}
			got := idsOf(hits)
			c.Event("multisearch_sorted_windows", 1)
			if fmt.Sprint(got) != fmt.Sprint(want) {
				wit["want"], wit["got"] = want, got
				c.Violate("topn-wrong-slice:multisearch", fmt.Sprintf("MultiSearch over %d readers, %d matches, sort %s, n=%d from=%d: want %d results %v..., got %d results %v...", nIdx, total, o.name, n, from, len(want), clipIDs(want), len(got), clipIDs(got)), wit)
			} else if len(want) > 0 {
				c.DistinctHash(vk.Hash64(fmt.Sprintf("multi|%s|n%d|f%d|x%d", o.name, bucket(n), bucket(from), nIdx)))
			}
		}
		// After chain
		page := []int{1, 7, 25, 100}[r.Intn(4)]
		var seen []string
		var after [][]byte
		ok := true
		for step := 0; step <= total/page+2; step++ {
			tn := bluge.NewTopNSearch(page, bluge.NewTermQuery("x").SetField("all")).SortByCustom(o.so())
			if after != nil {
				tn.After(after)
			}
			hits, err := ask(tn)
			c.Eval(1)
			if err != nil {
				c.Violate("topn-error:multisearch", err.Error(), map[string]interface{}{"part": "c09Multi", "i": i, "sort": o.name, "page": page})
				ok = false
				break
			}
			if len(hits) == 0 {
				break
			}
			seen = append(seen, idsOf(hits)...)
			after = hits[len(hits)-1].Sort
		}
		if !ok {
			continue
		}
		var want []string
		for _, d := range sorted {
			want = append(want, d.id)
		}
		c.Event("multisearch_after_chains", 1)
		if fmt.Sprint(seen) != fmt.Sprint(want) {
			c.Violate("paging-chain-wrong:multisearch", fmt.Sprintf("MultiSearch over %d readers, %d matches, sort %s, After chain with pages of %d: the pages enumerate %d results %v..., the ranking has %d: %v...", nIdx, total, o.name, page, len(seen), clipIDs(seen), len(want), clipIDs(want)),
				map[string]interface{}{"part": "c09Multi", "i": i, "sort": o.name, "page": page, "want": want, "got": seen})
		} else {
			c.DistinctHash(vk.Hash64(fmt.Sprintf("multi-chain|%s|p%d|x%d", o.name, page, nIdx)))
		}
	}
}
