package checks

import (
	"fmt"
	"math/rand"
	"regexp"
	"runtime"
	"strconv"
	"sync"
	"time"

	"github.com/blugelabs/bluge"
	"github.com/blugelabs/bluge/index"

	"verif/harness/bx"
	"verif/harness/model"
	"verif/harness/mon"
	"verif/harness/vk"
)

func init() {
	register(&Check{ID: "C06", Level: "exploration", Run: runC06})
}

type c06Scenario struct {
	Kind    string // file-merge mem-merge persist-swap
	Phase   string // point name the background goroutine is held at
	Item    string // item kind filter for directory points ("" any)
	Pattern string // some all-one all-every update-all
	Seed    int64
	SegVer  int
}

type c06Witness struct {
	Scenario c06Scenario
	Setup    []*model.Batch
	During   []*model.Batch
	Stage    string
	Layout   string
	Merged   []string
}

var fileSegRe = regexp.MustCompile(`^file:(\d+)#`)

func c06Run(c *vk.Ctx, sc c06Scenario) {
	r := rand.New(rand.NewSource(sc.Seed))
	dir := c.TempDir("c06-")
	o := rigOpts{Dir: dir, SegVer: sc.SegVer, Merge: "happy", Seed: 0}
	role := "merger"
	switch sc.Kind {
	case "mem-merge":
		o.MemMerge, o.Unsafe, role = true, true, "persister"
	case "persist-swap":
		o.Unsafe, role = true, "persister"
	}
	rg := newRig(o)
	if sc.Kind == "persist-swap" {
		// no merging at all: the persist swap alone is under test
		rg.Cfg = bx.NoMerge(rg.Cfg)
	}
	hold := rg.Sched.HoldNth(0, func(p mon.Point) bool {
		return p.Role == role && p.Name == sc.Phase && (sc.Item == "" || p.Kind == sc.Item)
	})
	w, err := bluge.OpenWriter(rg.Cfg)
	if err != nil {
		c.Violate("harness-open", err.Error(), nil)
		return
	}
	wit := &c06Witness{Scenario: sc}
	cur := &model.Index{}
	ver := 0
	segDocs := map[uint64][]string{} // segment id -> ids of the documents it was created with
	known := map[uint64]bool{}
	apply := func(b *model.Batch, list *[]*model.Batch) bool {
		*list = append(*list, b)
		if err := w.Batch(b.ToBluge()); err != nil {
			c.Violate("batch-error", fmt.Sprintf("%+v: %v", sc, err), wit)
			return false
		}
		cur = cur.Apply(b)
		return true
	}
	check := func(stage string) bool {
		rd, err := w.Reader()
		if err != nil {
			c.Violate("reader-error", err.Error(), wit)
			return false
		}
		defer rd.Close()
		c.Eval(1)
		if msg := fullDump(rd, cur); msg != "" {
			wit.Stage, wit.Layout = stage, layoutSig(rd)
			c.Violate("content-changed-by-background-work:"+sc.Kind, fmt.Sprintf("%s held at %s (%s), pattern %s, %s: %s (layout %s)", sc.Kind, sc.Phase, sc.Item, sc.Pattern, stage, msg, wit.Layout), wit)
			return false
		}
		return true
	}
	// setup: a few batches, each a segment of its own
	nSetup := 3 + r.Intn(2)
	if sc.Kind == "file-merge" {
		nSetup = 7 + r.Intn(3) // the planner only merges once the segment count exceeds its (tiny) budget
	}
	nextID := 0
	var prevIDs []string
	for i := 0; i < nSetup; i++ {
		b := &model.Batch{}
		var ids []string
		// half of the setup batches also delete one document of the previous batch, so that the segments
		// that get merged already carry deletions made BEFORE the merge was planned (deletes "since the
		// merge started" are then a proper subset of the segment's deletions)
		if len(prevIDs) > 2 && r.Intn(2) == 0 {
			b.Ops = append(b.Ops, model.Op{Kind: "delete", ID: prevIDs[len(prevIDs)-1]})
			c.Event("setup_segments_with_prior_deletions", 1)
		}
		for k := 0; k < 3+r.Intn(2); k++ {
			id := fmt.Sprintf("k%d", nextID)
			nextID++
			ver++
			ids = append(ids, id)
			b.Ops = append(b.Ops, model.Op{Kind: "update", ID: id, Doc: &model.Doc{ID: id, V: fmt.Sprintf("v%d", ver), Text: map[string]string{"t": fmt.Sprintf("w%d common", ver%3)}}})
		}
		if !apply(b, &wit.Setup) {
			_ = w.Close()
			return
		}
		prevIDs = ids
		// which segment id did this batch get?
		if rd, err := w.Reader(); err == nil {
			for _, s := range rd.VerifSnapshot().VerifSegments() {
				if !known[s.ID] {
					known[s.ID] = true
					if _, taken := segDocs[s.ID]; !taken {
						segDocs[s.ID] = ids
					}
				}
			}
			_ = rd.Close()
		}
		select {
		case <-time.After(0):
		}
	}
	if !hold.Reached(4 * time.Second) {
		hold.Release()
		c.Inconclusive("gate-not-reached:" + sc.Kind + ":" + sc.Phase)
		c.Event("placements_not_realised", 1)
		_ = w.Close()
		return
	}
	// which documents sit in the segments being merged / persisted?
	var targetSegs [][]string
	merges := rg.RSeg.Merges()
	if sc.Kind != "persist-swap" && len(merges) > 0 {
		last := merges[len(merges)-1]
		wit.Merged = last
		for _, name := range last {
			if m := fileSegRe.FindStringSubmatch(name); m != nil {
				id, _ := strconv.ParseUint(m[1], 10, 64)
				if docs, ok := segDocs[id]; ok {
					targetSegs = append(targetSegs, docs)
				}
			}
		}
	}
	if len(targetSegs) == 0 {
		// in-memory segments (or the persist swap): every setup batch is a candidate segment
		for _, b := range wit.Setup {
			var ids []string
			for _, op := range b.Ops {
				ids = append(ids, op.ID)
			}
			targetSegs = append(targetSegs, ids)
		}
	}
	// batches landing in the window
	mk := func(ids []string, update bool) *model.Batch {
		b := &model.Batch{}
		for _, id := range ids {
			if update {
				ver++
				b.Ops = append(b.Ops, model.Op{Kind: "update", ID: id, Doc: &model.Doc{ID: id, V: fmt.Sprintf("v%d", ver), Text: map[string]string{"t": "updated common"}}})
			} else {
				b.Ops = append(b.Ops, model.Op{Kind: "delete", ID: id})
			}
		}
		return b
	}
	ok := true
	switch sc.Pattern {
	case "some":
		ok = apply(mk(targetSegs[0][:1], false), &wit.During)
		if ok && len(targetSegs) > 1 {
			ok = apply(mk(targetSegs[1][:1], true), &wit.During)
		}
	case "all-one":
		ok = apply(mk(targetSegs[0], false), &wit.During)
	case "all-every":
		for _, ids := range targetSegs {
			if ok {
				ok = apply(mk(ids, false), &wit.During)
			}
		}
	case "update-all":
		for i, ids := range targetSegs {
			if ok {
				ok = apply(mk(ids, i%2 == 0), &wit.During)
			}
		}
	}
	if !ok {
		hold.Release()
		_ = w.Close()
		return
	}
	good := check("while the background goroutine is held")
	timedOut := hold.TimedOut
	hold.Release()
	if timedOut {
		c.Inconclusive("gate-watchdog")
		c.Event("placements_not_realised", 1)
		_ = w.Close()
		return
	}
	c.Event("placements_realised", 1)
	c.Event("realised_"+sc.Kind, 1)
	c.Distinct(fmt.Sprintf("%s|%s%s|%s", sc.Kind, sc.Phase, sc.Item, sc.Pattern))
	waitQuietRig(w, true)
	if good {
		good = check("after release and quiescence")
	}
	// one more batch after everything settled, then the durable state
	ver++
	apply(&model.Batch{Ops: []model.Op{{Kind: "update", ID: "tail", Doc: &model.Doc{ID: "tail", V: fmt.Sprintf("v%d", ver), Text: map[string]string{"t": "tail"}}}}}, &wit.During)
	waitQuietRig(w, true)
	if good {
		good = check("after a further batch")
	}
	for _, v := range rg.Violations() {
		c.Violate("seam-violation", fmt.Sprintf("%+v: %s", sc, v), wit)
	}
	// skipped merges and translated deletes actually seen (from the writer's own statistics)
	st := w.VerifIndexWriter().Stats()
	c.Event("skipped_merge_introductions", int(st.TotFileMergeIntroductionsObsoleted))
	c.Event("merge_introductions", int(st.TotIntroducedSegmentsMerge))
	if err := w.Close(); err != nil {
		c.Violate("close-error", err.Error(), wit)
	}
	if good && !o.Unsafe {
		rd, err := bluge.OpenReader(fsConfig(dir, fsOpts{Loader: "mmap", Merge: "none", SegVer: sc.SegVer}, nil))
		if err != nil {
			c.Violate("reopen-error", err.Error(), wit)
		} else {
			if msg := fullDump(rd, cur); msg != "" {
				wit.Stage = "after close and OpenReader"
				c.Violate("content-changed-by-background-work:"+sc.Kind, fmt.Sprintf("%s held at %s, pattern %s, after close and reopen: %s", sc.Kind, sc.Phase, sc.Pattern, msg), wit)
			}
			_ = rd.Close()
		}
	}
	_ = index.ItemKindSegment
}

func runC06(c *vk.Ctx) {
	c.Rule("scripted gates hold the merger (file merges) or the persister (in-memory merges, persist swaps) at each phase boundary - merge planned / merged file written / loaded / about to be introduced; segment written / loaded / snapshot about to be written / written - while the harness applies batches that delete or update documents of exactly the segments under merge (taken from the Merge call's inputs): some, all of one segment, all of every segment (skipped-merge path), updates of all; the reader is compared with the abstract index while held, after release and quiescence, after a further batch and after close + OpenReader. " +
		"distinct non-trivial = distinct (merge kind, phase, delete pattern) placements whose gate was really reached")
	c.Assume("a gate not reached within 4 s or released by its watchdog makes the placement 'not realised' (inconclusive), never a verdict")
	type ph struct{ kind, phase, item string }
	phases := []ph{
		{"file-merge", "merge.begin", ""}, {"file-merge", "merge.write.end", ""}, {"file-merge", "persist.end", ".seg"}, {"file-merge", "load.end", ".seg"}, {"file-merge", "ev:merge.intro.start", ""},
		{"mem-merge", "merge.begin", ""}, {"mem-merge", "persist.end", ".seg"}, {"mem-merge", "load.end", ".seg"}, {"mem-merge", "persist.begin", ".snp"},
		{"persist-swap", "persist.end", ".seg"}, {"persist-swap", "load.end", ".seg"}, {"persist-swap", "persist.begin", ".snp"}, {"persist-swap", "persist.end", ".snp"},
	}
	patterns := []string{"some", "all-one", "all-every", "update-all"}
	reps := c.Pick(3, 60)
	var scs []c06Scenario
	for rep := 0; rep < reps; rep++ {
		for _, p := range phases {
			for _, pat := range patterns {
				scs = append(scs, c06Scenario{Kind: p.kind, Phase: p.phase, Item: p.item, Pattern: pat, Seed: vk.SubSeed(c.Seed, fmt.Sprintf("c06-%d-%s-%s-%s", rep, p.kind, p.phase, pat)), SegVer: 1})
			}
		}
	}
	var wg sync.WaitGroup
	sem := make(chan struct{}, runtime.NumCPU())
	for i, sc := range scs {
		wg.Add(1)
		sem <- struct{}{}
		go func(i int, sc c06Scenario) {
			defer wg.Done()
			defer func() { <-sem }()
			c06Run(c, sc)
			if i < 2 {
				c.Sample(sc)
			}
		}(i, sc)
	}
	wg.Wait()
	c.Require("placements_realised", 30)
	c.Require("realised_file-merge", 8)
	c.Require("realised_mem-merge", 8)
	c.Require("realised_persist-swap", 8)
	c.Require("merge_introductions", 5)
}
