// Package checks holds one monitor per property (C01..C20).
package checks

import (
	"sort"

	"verif/harness/mon"
	"verif/harness/vk"
)

// Check is one registered property check.
type Check struct {
	ID    string
	Level string // evidence level
	Run   func(c *vk.Ctx)
	// Replay re-evaluates a recorded witness; nil => generic re-run with the recorded seed.
	Replay func(c *vk.Ctx, witness []byte)
}

var registry = map[string]*Check{}

func register(ch *Check) { registry[ch.ID] = ch }

// Get returns the check for a property id.
func Get(id string) *Check { return registry[id] }

// IDs lists the registered property ids.
func IDs() []string {
	var out []string
	for k := range registry {
		out = append(out, k)
	}
	sort.Strings(out)
	return out
}

func init() {
	// the yield-instrumented build reports which points between critical sections were reached
	vk.ExtraCoverage = func() map[string]interface{} {
		if !mon.YieldEnabled {
			return nil
		}
		points, calls, slept := mon.YieldStats()
		return map[string]interface{}{"yield_instrumented_build": true, "yield_points_reached": points, "yield_calls": calls, "yield_calls_that_slept": slept}
	}
}
