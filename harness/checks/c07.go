package checks

import (
	"context"
	"fmt"
	"math/rand"
	"runtime"
	"sort"
	"strings"
	"runtime/debug"
	"sync"
	"sync/atomic"
	"time"

	"github.com/blugelabs/bluge"

	"verif/harness/bx"
	"verif/harness/model"
	"verif/harness/vk"
)

func init() {
	register(&Check{ID: "C07", Level: "exploration", Run: runC07, Replay: replayC07})
}

// c07Witness replays one corpus and the query list served by one reader.
type c07Witness struct {
	Batches    []*model.Batch
	ReaderKind string
	Queries    []*model.Q
	FailedAt   int
	Collector  string
	Expected   []string
	Got        []string
	Undecided  []string
}

const c07StepLimit = 2000000

// runQuery runs one query through the step-counting reader; ids are returned sorted (with duplicates).
func c07Run(rd *bluge.Reader, cfg bluge.Config, q *model.Q, collector string) (ids []string, err error, aborted *bx.StepAbort, panicked string) {
	cr := &bx.CountingReader{Reader: rd.VerifSnapshot(), Limit: c07StepLimit}
	var req bluge.SearchRequest
	if collector == "topn" {
		req = bluge.NewTopNSearch(1000, q.ToBluge())
	} else if collector == "topn-noscore" {
		req = bluge.NewTopNSearch(1000, q.ToBluge()).SetScore("none")
	} else {
		req = bluge.NewAllMatches(q.ToBluge())
	}
	err, aborted, panicked = bx.Guarded(func() error {
		it, err := bx.SearchVia(context.Background(), cr, cfg, req)
		if err != nil {
			return err
		}
		hits, err := bx.Collect(it, false)
		for _, h := range hits {
			ids = append(ids, h.ID)
		}
		return err
	})
	sort.Strings(ids)
	return
}

func containsKind(q *model.Q, kinds ...string) bool {
	for _, k := range kinds {
		if q.Kind == k {
			return true
		}
	}
	for _, l := range [][]*model.Q{q.Must, q.Should, q.MustNot} {
		for _, c := range l {
			if containsKind(c, kinds...) {
				return true
			}
		}
	}
	return false
}

// classify gives the violation key of a mismatching query: the specific input class when the
// tree contains one of the classes with a dedicated key, otherwise the generic key.
func c07Key(q *model.Q, readerKind string) string {
	var walk func(x *model.Q) string
	walk = func(x *model.Q) string {
		switch x.Kind {
		case "termrange":
			if x.Lo != "" && x.Hi != "" && x.Lo > x.Hi {
				return "termrange-inverted-bounds"
			}
			if x.Lo != "" && x.Lo == x.Hi && !(x.IncMin && x.IncMax) {
				return "termrange-degenerate-halfopen"
			}
		}
		for _, l := range [][]*model.Q{x.Must, x.Should, x.MustNot} {
			for _, c := range l {
				if k := walk(c); k != "" {
					return k
				}
			}
		}
		return ""
	}
	if k := walk(q); k != "" {
		return k
	}
	return "wrong-result-set:" + readerKind
}

type c07Stats struct {
	mu      sync.Mutex
	perKind map[string]int
}

// checkCorpus builds the corpus and serves the query list through readers of each kind.
func c07CheckCorpus(c *vk.Ctx, co *model.Corpus, queries []*model.Q, dirKind string, seq int) {
	var cfg bluge.Config
	var dir string
	if dirKind == "fs" {
		dir = c.TempDir("c07-")
		cfg = bx.NoMerge(bluge.DefaultConfig(dir))
	} else {
		cfg = bx.NoMerge(bluge.InMemoryOnlyConfig())
	}
	batches := co.Batches
	if dirKind == "fs" && seq%2 == 1 && len(batches) >= 2 {
		// MERGED segments in front of never-merged ones (merged segments use compact encodings of their
		// own, e.g. for terms with a single hit): the first half of the history goes through a merge-happy
		// writer that is left to settle and closed, the rest through the ordinary writer below
		half := len(batches) / 2
		w0, err := bluge.OpenWriter(bx.MergeHappy(bluge.DefaultConfig(dir), false))
		if err != nil {
			c.Violate("harness-open", err.Error(), nil)
			return
		}
		for _, b := range batches[:half] {
			if err := w0.Batch(b.ToBluge()); err != nil {
				c.Violate("harness-batch", err.Error(), nil)
			}
		}
		// the planner only merges once the segment count exceeds its (small) budget: pad the history with
		// throw-away documents, one batch each, deleted again at the end (no logical content added)
		for k := 0; k < 10; k++ {
			jb := bluge.NewBatch()
			jd := &model.Doc{ID: fmt.Sprintf("junk-%d", k), V: "junk", Text: map[string]string{"t": "junk"}}
			jb.Update(bluge.Identifier(jd.ID), jd.ToBluge())
			_ = w0.Batch(jb)
		}
		jb := bluge.NewBatch()
		for k := 0; k < 10; k++ {
			jb.Delete(bluge.Identifier(fmt.Sprintf("junk-%d", k)))
		}
		_ = w0.Batch(jb)
		waitQuiet(w0)
		if rd0, err := w0.Reader(); err == nil {
			if n0 := len(rd0.VerifSnapshot().Segments()); n0 < half+10 {
				c.Event("merged_front_really_merged", 1)
			}
			_ = rd0.Close()
		}
		if err := w0.Close(); err != nil {
			c.Violate("harness-close", err.Error(), nil)
			return
		}
		batches = batches[half:]
		c.Event("corpora_with_merged_segments_in_front", 1)
	}
	w, err := bluge.OpenWriter(cfg)
	if err != nil {
		c.Violate("harness-open", err.Error(), nil)
		return
	}
	for _, b := range batches {
		if err := w.Batch(b.ToBluge()); err != nil {
			c.Violate("harness-batch", err.Error(), nil)
		}
	}
	type rk struct {
		kind string
		rd   *bluge.Reader
	}
	var readers []rk
	cur, err := w.Reader()
	if err != nil {
		c.Violate("harness-reader", err.Error(), nil)
		_ = w.Close()
		return
	}
	nseg := len(cur.VerifSnapshot().Segments())
	c.EventMax("max_segments", int64(nseg))
	if len(batches) != len(co.Batches) {
		c.Event(fmt.Sprintf("merged_front_layouts_with_%d_segments", nseg), 1)
	}
	if nseg >= 2 {
		c.Event("corpora_with_2plus_segments", 1)
	}
	hasDel := false
	for _, s := range cur.VerifSnapshot().Segments() {
		if s.Deleted() != nil && !s.Deleted().IsEmpty() {
			hasDel = true
		}
	}
	if hasDel {
		c.Event("corpora_with_pending_deletions", 1)
	}
	readers = append(readers, rk{"current-root", cur})
	if seq%2 == 0 {
		// a superseded reader: acquired before a batch that changes nothing logically
		sup, _ := w.Reader()
		nb := bluge.NewBatch()
		nb.Delete(bluge.Identifier("no-such-document"))
		_ = w.Batch(nb)
		readers = append(readers, rk{"superseded", sup})
		// the current-root reader must be re-acquired: the old one is superseded as well now
		_ = cur.Close()
		cur, _ = w.Reader()
		readers[0].rd = cur
	}
	closeAll := func() {
		for _, r := range readers {
			_ = r.rd.Close()
		}
	}
	for ri, r := range readers {
		for qi, q := range queries {
			coll := "all"
			switch (qi + ri) % 6 {
			case 0, 3:
				coll = "topn"
			case 1:
				coll = "topn-noscore" // score mode none: the unadorned conjunction / disjunction optimisations
			}
			repeat := 1
			if qi%10 == 9 {
				repeat = 2
			}
			var prev []string
			for rep := 0; rep < repeat; rep++ {
				ids, err, aborted, panicked := c07Run(r.rd, cfg, q, coll)
				c.Eval(1)
				c.Event("queries_"+r.kind, 1)
				wit := func(exp, und []string) *c07Witness {
					return &c07Witness{Batches: co.Batches, ReaderKind: r.kind, Queries: queries[:qi+1], FailedAt: qi, Collector: coll, Expected: exp, Got: ids, Undecided: und}
				}
				if aborted != nil {
					c.Event("skipped_numeric_enumeration_blowup_see_C10", 1)
					break
				}
				if panicked != "" {
					key := "search-panic"
					if containsKind(q, "fuzzy") || (containsKind(q, "match") && strings.Contains(panicked, "Fuzzy")) {
						key = "search-panic:fuzzy"
					}
					c.Violate(key, fmt.Sprintf("query %s panicked: %s", q, firstLines(panicked, 12)), wit(nil, nil))
					break
				}
				if err != nil {
					c.Violate("search-error", fmt.Sprintf("query %s: %v", q, err), wit(nil, nil))
					break
				}
				if rep == 1 {
					c.Event("immediate_repeats", 1)
					if fmt.Sprint(prev) != fmt.Sprint(ids) {
						c.Violate("same-query-different-answer:"+r.kind, fmt.Sprintf("query %s issued twice in a row on one reader answered %v then %v", q, prev, ids), wit(prev, nil))
					}
				}
				prev = ids
				var exp, und []string
				undSet := map[string]bool{}
				for _, d := range co.Final.Docs {
					switch q.Eval(d) {
					case model.Yes:
						exp = append(exp, d.ID)
					case model.Unknown:
						und = append(und, d.ID)
						undSet[d.ID] = true
					}
				}
				sort.Strings(exp)
				got := ids
				if len(und) > 0 {
					c.Event("undecided_doc_verdicts", len(und))
					got = nil
					for _, id := range ids {
						if !undSet[id] {
							got = append(got, id)
						}
					}
					e2 := exp[:0:0]
					for _, id := range exp {
						if !undSet[id] {
							e2 = append(e2, id)
						}
					}
					exp = e2
				}
				if fmt.Sprint(got) != fmt.Sprint(exp) {
					c.Violate(c07Key(q, r.kind), fmt.Sprintf("%s reader, %s collector, query #%d %s: expected %v got %v", r.kind, coll, qi, q, exp, got), wit(exp, und))
				} else if len(exp) > 0 && len(exp) < len(co.Final.Docs) {
					c.DistinctHash(vk.Hash64(q.Shape() + "|" + fmt.Sprint(len(exp) > 1)))
				}
				c.Event("kind_"+topKind(q), 1)
			}
		}
	}
	closeAll()
	if err := w.Close(); err != nil {
		c.Violate("harness-close", err.Error(), nil)
	}
	if dirKind == "fs" {
		rd, err := bluge.OpenReader(cfg)
		if err != nil {
			if len(co.Batches) > 0 {
				c.Violate("harness-openreader", err.Error(), nil)
			}
			return
		}
		for qi, q := range queries {
			ids, err, aborted, panicked := c07Run(rd, cfg, q, "all")
			c.Eval(1)
			c.Event("queries_openreader", 1)
			if aborted != nil || panicked != "" || err != nil {
				continue // judged above
			}
			var exp []string
			undSet := map[string]bool{}
			for _, d := range co.Final.Docs {
				switch q.Eval(d) {
				case model.Yes:
					exp = append(exp, d.ID)
				case model.Unknown:
					undSet[d.ID] = true
				}
			}
			sort.Strings(exp)
			var got, e2 []string
			for _, id := range ids {
				if !undSet[id] {
					got = append(got, id)
				}
			}
			for _, id := range exp {
				if !undSet[id] {
					e2 = append(e2, id)
				}
			}
			if fmt.Sprint(got) != fmt.Sprint(e2) {
				c.Violate(c07Key(q, "openreader"), fmt.Sprintf("OpenReader reader, query #%d %s: expected %v got %v", qi, q, e2, got),
					&c07Witness{Batches: co.Batches, ReaderKind: "openreader", Queries: queries[:qi+1], FailedAt: qi, Collector: "all", Expected: e2, Got: got})
			}
		}
		_ = rd.Close()
	}
}

func topKind(q *model.Q) string {
	if q.Kind == "bool" {
		return fmt.Sprintf("bool_depth%d", q.Depth())
	}
	if q.Kind == "termrange" {
		if q.Lo != "" && q.Hi != "" && q.Lo > q.Hi {
			return "termrange_inverted"
		}
		if q.Lo != "" && q.Lo == q.Hi {
			return "termrange_degenerate"
		}
	}
	return q.Kind
}

func firstLines(s string, n int) string {
	l := strings.Split(s, "\n")
	if len(l) > n {
		l = l[:n]
	}
	return strings.Join(l, "\n")
}

// small exhaustive scope: every assignment of three terms to five documents in two segments
// against every boolean shape of depth <= 2 from a fixed shape list.
func c07Shapes() []*model.Q {
	leaf := func(t string) *model.Q {
		switch t {
		case "*":
			return &model.Q{Kind: "all"}
		case "0":
			return &model.Q{Kind: "none"}
		}
		return &model.Q{Kind: "term", Field: "t", Term: t}
	}
	leaves := []string{"a", "b", "c", "*", "0"}
	var out []*model.Q
	for _, l := range leaves {
		out = append(out, leaf(l))
	}
	// depth 1: must subset (<=2), should subset (<=2) with min 0..2, mustNot (<=1)
	terms := []string{"a", "b", "c"}
	var subsets [][]string
	subsets = append(subsets, nil)
	for i := range terms {
		subsets = append(subsets, []string{terms[i]})
		for j := i + 1; j < len(terms); j++ {
			subsets = append(subsets, []string{terms[i], terms[j]})
		}
	}
	mk := func(l []string) []*model.Q {
		var o []*model.Q
		for _, t := range l {
			o = append(o, leaf(t))
		}
		return o
	}
	var d1 []*model.Q
	for _, m := range subsets {
		for _, s := range subsets {
			for min := 0; min <= 2; min++ {
				if len(s) == 0 && min > 0 {
					continue
				}
				for _, n := range [][]string{nil, {"a"}, {"c"}, {"*"}} {
					q := &model.Q{Kind: "bool", Must: mk(m), Should: mk(s), MustNot: mk(n), MinShould: min}
					d1 = append(d1, q)
				}
			}
		}
	}
	out = append(out, d1...)
	// depth 2: combine a few depth-1 shapes under must / should / must-not
	pick := []*model.Q{d1[5], d1[17], d1[40], d1[77], d1[101]}
	for i, x := range pick {
		for j, y := range pick {
			out = append(out, &model.Q{Kind: "bool", Must: []*model.Q{x}, Should: []*model.Q{y, leaf("b")}, MinShould: (i + j) % 2})
			out = append(out, &model.Q{Kind: "bool", Should: []*model.Q{x, y}, MinShould: 1 + (i+j)%2})
			out = append(out, &model.Q{Kind: "bool", Must: []*model.Q{leaf("a")}, MustNot: []*model.Q{x}, Should: []*model.Q{y}})
		}
	}
	return out
}

func c07SmallScope(c *vk.Ctx, assignments []int) {
	shapes := c07Shapes()
	c.Set("small_scope_shapes", len(shapes))
	workers := runtime.NumCPU()
	ch := make(chan int, 256)
	var wg sync.WaitGroup
	for w := 0; w < workers; w++ {
		wg.Add(1)
		go func() {
			defer wg.Done()
			for a := range ch {
				// bits 3*i..3*i+2 of a: terms of document i
				co := &model.Corpus{Final: &model.Index{}}
				b1, b2 := &model.Batch{}, &model.Batch{}
				for i := 0; i < 5; i++ {
					var ts []string
					for t := 0; t < 3; t++ {
						if a>>(3*i+t)&1 == 1 {
							ts = append(ts, string(rune('a'+t)))
						}
					}
					d := &model.Doc{ID: fmt.Sprintf("d%d", i), Text: map[string]string{"t": strings.Join(ts, " ")}}
					op := model.Op{Kind: "update", ID: d.ID, Doc: d}
					if i < 3 {
						b1.Ops = append(b1.Ops, op)
					} else {
						b2.Ops = append(b2.Ops, op)
					}
					co.Final.Docs = append(co.Final.Docs, d)
				}
				co.Batches = []*model.Batch{b1, b2}
				c07CheckCorpusLight(c, co, shapes)
				c.Event("small_scope_assignments", 1)
			}
		}()
	}
	for _, a := range assignments {
		ch <- a
	}
	close(ch)
	wg.Wait()
}

// light variant for the small scope: one in-memory index, current-root reader, all collector.
func c07CheckCorpusLight(c *vk.Ctx, co *model.Corpus, queries []*model.Q) {
	cfg := bx.NoMerge(bluge.InMemoryOnlyConfig())
	w, err := bluge.OpenWriter(cfg)
	if err != nil {
		c.Violate("harness-open", err.Error(), nil)
		return
	}
	defer w.Close()
	for _, b := range co.Batches {
		if err := w.Batch(b.ToBluge()); err != nil {
			c.Violate("harness-batch", err.Error(), nil)
		}
	}
	rd, err := w.Reader()
	if err != nil {
		return
	}
	defer rd.Close()
	for qi, q := range queries {
		ids, err, aborted, panicked := c07Run(rd, cfg, q, "all")
		c.Eval(1)
		if aborted != nil || err != nil || panicked != "" {
			c.Violate("small-scope-search-failed", fmt.Sprintf("query %s: err=%v aborted=%v panic=%s", q, err, aborted != nil, firstLines(panicked, 6)),
				&c07Witness{Batches: co.Batches, ReaderKind: "current-root", Queries: queries[:qi+1], FailedAt: qi, Collector: "all"})
			continue
		}
		var exp []string
		for _, d := range co.Final.Docs {
			if q.Eval(d) == model.Yes {
				exp = append(exp, d.ID)
			}
		}
		sort.Strings(exp)
		if fmt.Sprint(ids) != fmt.Sprint(exp) {
			c.Violate("wrong-result-set:current-root", fmt.Sprintf("small scope, query #%d %s: expected %v got %v", qi, q, exp, ids),
				&c07Witness{Batches: co.Batches, ReaderKind: "current-root", Queries: queries[:qi+1], FailedAt: qi, Collector: "all", Expected: exp, Got: ids})
		}
	}
}

// c07MergedFront: a merged segment followed by never-merged ones, keyword values some of which occur
// exactly once in the merged part (merges store such terms in a compact one-hit form) and again in the
// later segments; every two-term conjunction / disjunction / exclusion over the keyword and text terms,
// each under all collectors (scored, unscored, all-matches).
func c07MergedFront(c *vk.Ctx, i int) {
	r := rand.New(rand.NewSource(vk.SubSeed(c.Seed, fmt.Sprintf("c07-mergedfront-%d", i))))
	kv := []string{"ka", "kb", "kc", "kd", "ke"}
	tv := []string{"x", "y", "z"}
	co := &model.Corpus{Vocab: model.GenVocab(r, 3)}
	ix := &model.Index{}
	n := 0
	// one document per batch: small segments are what the merge planner picks first, so the documents of
	// the first half really end up inside merged segments
	nb := 14 + r.Intn(8)
	for b := 0; b < nb; b++ {
		bt := &model.Batch{}
		for k := 0; k < 1; k++ {
			n++
			id := fmt.Sprintf("m%02d", n)
			// skewed: kd / ke are rare, so that they tend to occur once in the merged half
			kw := kv[[]int{0, 0, 0, 1, 1, 2, 2, 3, 4}[r.Intn(9)]]
			var words []string
			for x := 0; x < 1+r.Intn(3); x++ {
				words = append(words, tv[r.Intn(3)])
			}
			bt.Ops = append(bt.Ops, model.Op{Kind: "update", ID: id, Doc: &model.Doc{ID: id, V: id, Kw: map[string][]string{"k": {kw}}, Text: map[string]string{"t": strings.Join(words, " ")}}})
		}
		if b == nb-3 && n > 3 {
			bt.Ops = append(bt.Ops, model.Op{Kind: "delete", ID: fmt.Sprintf("m%02d", 1+r.Intn(3))})
		}
		co.Batches = append(co.Batches, bt)
		ix = ix.Apply(bt)
	}
	co.Final = ix
	T := func(f, t string) *model.Q { return &model.Q{Kind: "term", Field: f, Term: t} }
	var qs []*model.Q
	add := func(q *model.Q) {
		for k := 0; k < 6; k++ { // six consecutive copies: each meets every collector of the rotation
			qs = append(qs, q)
		}
	}
	for _, a := range kv {
		for _, t := range tv {
			add(&model.Q{Kind: "bool", Must: []*model.Q{T("k", a), T("t", t)}})
			add(&model.Q{Kind: "bool", Should: []*model.Q{T("k", a), T("t", t)}, MinShould: 1})
			add(&model.Q{Kind: "bool", Must: []*model.Q{T("t", t)}, MustNot: []*model.Q{T("k", a)}})
		}
		for _, b := range kv {
			if a < b {
				add(&model.Q{Kind: "bool", Should: []*model.Q{T("k", a), T("k", b)}, MinShould: 1})
			}
		}
		add(&model.Q{Kind: "bool", Must: []*model.Q{T("k", a), T("_id", fmt.Sprintf("m%02d", 1+r.Intn(n)))}})
	}
	c07CheckCorpus(c, co, qs, "fs", 2*i+1)
	c.Event("merged_front_small_corpora", 1)
}

// every leaf kind, with the term-enumerating kinds (numeric, date, geo) at a low weight
var c07MixedKinds = func() []string {
	var l []string
	for i := 0; i < 3; i++ {
		l = append(l, "term", "term", "match", "matchphrase", "multiphrase", "prefix", "wildcard", "regexp", "fuzzy", "termrange", "all", "none", "kwterm")
	}
	// (geo leaves only in their own corpus class: one geo leaf costs thousands of allocating look-ups,
	// and a depth-3 tree holds dozens of leaves)
	return append(l, "numrange", "daterange")
}()

func runC07(c *vk.Ctx) {
	model.GeoHeavy = !c.Quick()
	// geo range computations allocate heavily; sixteen of them at once otherwise spend their time queueing
	// for the start of the next collection
	debug.SetGCPercent(400)
	c.Rule("generated corpora (1..40 docs, 3..8 word vocabulary over {a,b,c}, 1..8 segments with pending deletions, merging off) x generated query trees (all leaf kinds, depth <= 3) served in sequence " +
		"by a current-root reader, a superseded reader and an OpenReader reader, both collectors, every 10th query twice in a row; result ids compared as multisets with an independent evaluator; " +
		"plus the small scope (assignments of 3 terms to 5 docs in 2 segments x a fixed list of boolean shapes of depth <= 2). " +
		"distinct non-trivial = distinct (query shape, result-size class) whose expected result is non-empty and not the whole corpus")
	c.Assume("the harness analyzer (whitespace + lower case) is what index time and match queries use; model tokenization = strings.Fields",
		"fuzzy: restricted Damerau-Levenshtein; (term, candidate) pairs where restricted and unrestricted distance disagree are not decided",
		"geo: points within a relative 1e-3 of a box edge / distance threshold are not decided",
		"numeric/date ranges that run into C10's byte-wise enumeration blow-up are aborted by the step counter and left to C10",
		"empty prefixes are not generated")
	nCorp := c.Pick(240, 4000)
	if vk.DebugOnly("c07-mergedfront") {
		nCorp = 0
	}
	nQ := c.Pick(40, 50)
	workers := runtime.NumCPU()
	var wg sync.WaitGroup
	var nextCorpus atomic.Int64 // shared work queue: slow (geo) corpora do not pile up on one worker
	for w := 0; w < workers; w++ {
		wg.Add(1)
		go func(w int) {
			defer wg.Done()
			for i := int(nextCorpus.Add(1)) - 1; i < nCorp; i = int(nextCorpus.Add(1)) - 1 {
				r := rand.New(rand.NewSource(vk.SubSeed(c.Seed, fmt.Sprintf("c07-corpus-%d", i))))
				co := model.GenCorpus(r, model.CorpusOpts{MaxDocs: 40, Geo: true, MultiValue: true})
				kinds := c07MixedKinds
				depth := 3
				nq := nQ
				switch i % 4 {
				case 1: // boolean-heavy over plain terms (Advance paths)
					kinds = []string{"term", "term", "term", "all", "none", "kwterm", "idterm", "idterm"}
					depth = 4
				case 2:
					kinds = []string{"term", "match", "matchphrase", "multiphrase", "prefix", "wildcard", "regexp", "fuzzy", "termrange"}
				case 3: // numeric / date / geo leaves enumerate many dictionary terms: shallow trees, fewer queries
					kinds = []string{"numrange", "numrange", "daterange", "daterange", "term"}
					depth = 1
					nq = nQ / 3
					// geo searches are the most expensive ones (thousands of allocating look-ups each; seconds per
				// search with the planet-scale radii of the thorough tier, which therefore takes every fourth
				// geo corpus only)
				if i%8 == 7 && (c.Quick() || i%32 == 7) {
						kinds = []string{"geobox", "geodist", "geobox", "geodist", "term"}
						nq = c.Pick(8, 14)
						depth = 2
					}
				}
				qs := make([]*model.Q, nq)
				for k := range qs {
					qs[k] = model.GenQuery(r, co, model.QueryOpts{Kinds: kinds}, depth)
					// wide should / must-not lists (> 10 clauses: heap disjunction), with composite clauses, under a must
					if (i%4 == 1 && k%4 == 3) || (i%4 == 0 && k%10 == 7) {
						qs[k] = model.GenWideQuery(r, co, model.QueryOpts{Kinds: []string{"term", "term", "kwterm", "matchphrase", "prefix"}})
						c.Event("wide_disjunction_queries", 1)
					}
				}
				dirKind := "mem"
				if i%3 == 0 {
					dirKind = "fs"
				}
				t0 := time.Now()
				c07CheckCorpus(c, co, qs, dirKind, i)
				if d := time.Since(t0); d > 5*time.Second {
					c.Event(fmt.Sprintf("slow_corpus_class%d_%s", i%8, dirKind), 1)
					c.EventMax("slowest_corpus_ms", d.Milliseconds())
				}
				c.Event("corpora", 1)
				if i < 2 {
					c.Sample(map[string]interface{}{"corpus_docs": len(co.Final.Docs), "batches": len(co.Batches), "first_queries": []string{qs[0].String(), qs[1].String(), qs[2].String()}})
				}
			}
		}(w)
	}
	wg.Wait()
	{
		nmf := c.Pick(30, 600)
		var next atomic.Int64
		var wg2 sync.WaitGroup
		for w := 0; w < workers; w++ {
			wg2.Add(1)
			go func() {
				defer wg2.Done()
				for i := int(next.Add(1)) - 1; i < nmf; i = int(next.Add(1)) - 1 {
					c07MergedFront(c, i)
				}
			}()
		}
		wg2.Wait()
	}
	{
		ngc := c.Pick(16, 96)
		var next atomic.Int64
		var wg3 sync.WaitGroup
		for w := 0; w < workers; w++ {
			wg3.Add(1)
			go func() {
				defer wg3.Done()
				for i := int(next.Add(1)) - 1; i < ngc; i = int(next.Add(1)) - 1 {
					c07GeoCorners(c, i)
				}
			}()
		}
		wg3.Wait()
	}
	// small scope
	var assignments []int
	if c.Quick() {
		r := c.Rand("small-scope")
		for i := 0; i < 400; i++ {
			assignments = append(assignments, r.Intn(1<<15))
		}
	} else {
		for a := 0; a < 1<<15; a++ {
			assignments = append(assignments, a)
		}
		c.Set("small_scope_exhaustive", true)
	}
	c07SmallScope(c, assignments)
	c.Require("corpora_with_2plus_segments", 20)
	c.Require("corpora_with_pending_deletions", 20)
	c.Require("queries_current-root", 1000)
	c.Require("queries_superseded", 500)
	c.Require("queries_openreader", 500)
	c.Require("immediate_repeats", 100)
}

func replayC07(c *vk.Ctx, witness []byte) {
	var w c07Witness
	if err := jsonUnmarshal(witness, &w); err != nil || len(w.Queries) == 0 {
		c.Violate("replay-unreadable", "witness cannot be decoded", nil)
		return
	}
	ix := &model.Index{}
	for _, b := range w.Batches {
		ix = ix.Apply(b)
	}
	co := &model.Corpus{Batches: w.Batches, Final: ix}
	c07CheckCorpus(c, co, w.Queries, "fs", 0)
}
