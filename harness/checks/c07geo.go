package checks

import (
	"fmt"
	"math"
	"math/rand"

	"verif/harness/model"
	"verif/harness/vk"
)

// c07GeoCorners: a distance query is answered by a coarse candidate set (the cells of the circle's bounding
// box) and an exact filter. Small corpora place documents where the two differ - in the CORNERS of the
// bounding box (inside the box, well outside the circle) - beside documents well inside the circle and far
// outside the box, with and without the terms of the other clauses, in every document order; the geo leaf
// is asked alone and as a clause of conjunctions, exclusions and disjunctions in both clause orders, so that
// it is driven by Next and by Advance (landing on accepted and on rejected candidates).
func c07GeoCorners(c *vk.Ctx, i int) {
	r := rand.New(rand.NewSource(vk.SubSeed(c.Seed, fmt.Sprintf("c07-geocorners-%d", i))))
	clat := (r.Float64()*2 - 1) * 55
	clon := (r.Float64()*2 - 1) * 170
	if i%5 == 4 {
		clon = 179.6 + r.Float64()*0.3 // the box crosses the antimeridian
	}
	dist := []float64{3000, 40000, 250000}[i%3] * (0.7 + 0.6*r.Float64())
	dLat := dist / 111195.0
	dLon := dist / (111195.0 * math.Cos(clat*math.Pi/180))
	at := func(fx, fy float64) model.Point {
		lon := clon + fx*dLon
		for lon > 180 {
			lon -= 360
		}
		for lon < -180 {
			lon += 360
		}
		return model.Point{Lon: lon, Lat: clat + fy*dLat}
	}
	type place struct {
		name   string
		fx, fy float64
	}
	places := []place{
		{"in", 0.3, 0.3}, {"in", -0.5, 0.1}, {"in", 0, -0.6}, {"in", 0.1, 0.05},
		{"corner", 0.88, 0.88}, {"corner", -0.88, 0.88}, {"corner", 0.88, -0.88}, {"corner", -0.88, -0.88}, {"corner", 0.8, -0.93},
		{"far", 2.5, 2.5}, {"far", -3, 0.2}, {"far", 0.1, 4},
	}
	co := &model.Corpus{Vocab: model.GenVocab(r, 3)}
	ix := &model.Index{}
	var docs []*model.Doc
	for k := 0; k < 14+r.Intn(10); k++ {
		p := places[r.Intn(len(places))]
		if k < len(places) {
			p = places[k]
		}
		words := []string{"x", "y", "x y", "z", "x z"}[r.Intn(5)]
		if p.name == "corner" && r.Intn(3) > 0 {
			words = "x y"
		}
		d := &model.Doc{ID: fmt.Sprintf("g%02d-%s", k, p.name), V: fmt.Sprintf("v%d", k), Text: map[string]string{"t": words},
			Kw: map[string][]string{"k": {[]string{"ka", "kb"}[r.Intn(2)]}}, Geo: map[string][]model.Point{"g": {at(p.fx, p.fy)}}}
		if r.Intn(9) == 0 {
			delete(d.Geo, "g")
		}
		docs = append(docs, d)
	}
	r.Shuffle(len(docs), func(a, b int) { docs[a], docs[b] = docs[b], docs[a] })
	per := []int{1, 2, 5, len(docs)}[r.Intn(4)]
	for off := 0; off < len(docs); off += per {
		end := off + per
		if end > len(docs) {
			end = len(docs)
		}
		bt := &model.Batch{}
		for _, d := range docs[off:end] {
			bt.Ops = append(bt.Ops, model.Op{Kind: "update", ID: d.ID, Doc: d})
		}
		co.Batches = append(co.Batches, bt)
		ix = ix.Apply(bt)
	}
	if len(docs) > 4 && r.Intn(2) == 0 {
		bt := &model.Batch{Ops: []model.Op{{Kind: "delete", ID: docs[r.Intn(len(docs))].ID}}}
		co.Batches = append(co.Batches, bt)
		ix = ix.Apply(bt)
	}
	co.Final = ix
	T := func(t string) *model.Q { return &model.Q{Kind: "term", Field: "t", Term: t} }
	K := func(t string) *model.Q { return &model.Q{Kind: "term", Field: "k", Term: t} }
	circle := func(f float64) *model.Q {
		return &model.Q{Kind: "geodist", Field: "g", CLon: clon, CLat: clat, DistM: dist * f}
	}
	var qs []*model.Q
	add := func(q *model.Q) {
		for k := 0; k < 3; k++ { // consecutive copies meet every collector of the rotation
			qs = append(qs, q)
		}
	}
	// (a geo search costs thousands of allocating dictionary look-ups: the smaller circle only gets the
	// conjunction with one term, in both clause orders)
	g8 := circle(0.8)
	add(g8)
	add(&model.Q{Kind: "bool", Must: []*model.Q{T("x"), g8}})
	add(&model.Q{Kind: "bool", Must: []*model.Q{g8, T("x")}})
	for _, f := range []float64{1} {
		g := circle(f)
		add(g)
		for _, t := range []*model.Q{T("x"), T("y"), T("z"), K("ka")} {
			add(&model.Q{Kind: "bool", Must: []*model.Q{t, g}})
			add(&model.Q{Kind: "bool", Must: []*model.Q{g, t}})
			add(&model.Q{Kind: "bool", Must: []*model.Q{t}, MustNot: []*model.Q{g}})
			add(&model.Q{Kind: "bool", Must: []*model.Q{g}, MustNot: []*model.Q{t}})
			add(&model.Q{Kind: "bool", Should: []*model.Q{g, t}, MinShould: 2})
			add(&model.Q{Kind: "bool", Should: []*model.Q{t, g}, MinShould: 1})
		}
		add(&model.Q{Kind: "bool", Must: []*model.Q{T("x"), T("y"), g}})
		add(&model.Q{Kind: "bool", Must: []*model.Q{g, circle(2.2)}})
		add(&model.Q{Kind: "bool", Must: []*model.Q{T("x"), {Kind: "bool", Must: []*model.Q{g, K("kb")}}}})
	}
	c07CheckCorpus(c, co, qs, []string{"mem", "fs"}[i%2], 2*i+(i/2)%2)
	c.Event("geo_corner_corpora", 1)
}
