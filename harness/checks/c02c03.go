package checks

import (
	"encoding/json"
	"fmt"
	"path/filepath"
	"runtime"
	"sort"
	"strings"
	"time"

	"verif/harness/model"
	"verif/harness/mon"
	"verif/harness/vk"
)

func init() {
	register(&Check{ID: "C02", Level: "fault_enumeration", Run: runC02})
	register(&Check{ID: "C03", Level: "fault_enumeration", Run: runC03})
}

type traceCfg struct {
	name string
	fs   fsOpts
}

var crashTraceCfgs = []traceCfg{
	{"safe-mergehappy", fsOpts{Loader: "mmap", Merge: "happy", MemMerge: false}},
	{"unsafe-callbacks-memmerge", fsOpts{Loader: "mmap", Merge: "happy", MemMerge: true, Unsafe: true}},
	{"safe-memmerge-keep2", fsOpts{Loader: "mmap", Merge: "happy", MemMerge: true, KeepN: 2}},
	{"unsafe-callbacks-nomerge-v2", fsOpts{Loader: "mmap", Merge: "none", Unsafe: true, SegVer: 2}},
	{"safe-default-keep3", fsOpts{Loader: "nommap", Merge: "default", KeepN: 3}},
}

// traceFacts checks the ordering facts of C02 directly on the trace: at every ack(i) a completed
// snapshot persist exists whose segment files were all completely persisted, and none of those
// files has been removed.
func traceFacts(c *vk.Ctx, tr *traceResult, cfgName string) {
	files := map[string]bool{}
	type snap struct {
		epoch uint64
		segs  []uint64
	}
	var snaps []snap
	maxInflight, inflight := 0, 0
	lastAck := 0
	for _, e := range tr.Events {
		switch e.Op {
		case "persist-end":
			if e.Err == "" {
				files[mon.FileName(e.Kind, e.ID)] = true
				if e.Kind == ".snp" {
					segs, err := decodeSnapshotSegIDs(e.Disk)
					if err != nil {
						c.Violate("persisted-snapshot-undecodable", fmt.Sprintf("snapshot %d reported persisted does not decode: %v", e.ID, err), map[string]interface{}{"config": cfgName, "bytes": fmt.Sprintf("%x", e.Disk)})
						continue
					}
					snaps = append(snaps, snap{e.ID, segs})
					c.Event("snapshot_persists_seen", 1)
				} else {
					c.Event("segment_persists_seen", 1)
				}
			}
		case "remove":
			if e.Err == "" {
				delete(files, mon.FileName(e.Kind, e.ID))
				c.Event("removes_seen", 1)
			}
		case "mark":
			switch e.Tag {
			case "call":
				inflight = e.N - lastAck
				if inflight > maxInflight {
					maxInflight = inflight
				}
			case "ack":
				lastAck = e.N
				c.Event("acks_seen", 1)
				ok := false
				for k := len(snaps) - 1; k >= 0 && !ok; k-- {
					s := snaps[k]
					if !files[mon.FileName(".snp", s.epoch)] {
						continue
					}
					all := true
					for _, id := range s.segs {
						if !files[mon.FileName(".seg", id)] {
							all = false
						}
					}
					ok = all
				}
				if !ok {
					c.Violate("ack-before-complete-snapshot", fmt.Sprintf("config %s: at ack(%d) (event %d) no completely persisted snapshot with all its segment files exists", cfgName, e.N, e.Seq),
						map[string]interface{}{"config": cfgName, "ack": e.N, "event": e.Seq})
				} else {
					c.Event("acks_with_complete_snapshot_on_disk", 1)
				}
			}
		}
	}
	c.EventMax("max_batches_in_flight", int64(maxInflight))
}

func decodeSnapshotSegIDs(b []byte) ([]uint64, error) {
	return mon.DecodeSnapshotSegIDs(b)
}

type crashRunOpts struct {
	traces      int
	batches     int
	classes     map[string]bool // image classes to open (nil: all)
	allPrefix   bool
	depth2      int // number of images per trace to continue from
	contBatches int
}

func runCrashEngine(c *vk.Ctx, o crashRunOpts) {
	type job struct {
		ti  int
		cfg traceCfg
	}
	for ti := 0; ti < o.traces; ti++ {
		cfg := crashTraceCfgs[ti%len(crashTraceCfgs)]
		dir := c.TempDir("trace-")
		tr, err := runTrace(traceOpts{Seed: vk.SubSeed(c.Seed, fmt.Sprintf("%s-trace-%d", c.Prop, ti)), Batches: o.batches, IDs: 6, FS: cfg.fs, Jitter: true, Dir: dir, VPrefix: "v"})
		if err != nil {
			c.Violate("harness-trace", err.Error(), nil)
			continue
		}
		for _, e := range tr.Errs {
			c.Violate("fault-free-run-reports-error", e, map[string]interface{}{"config": cfg.name})
		}
		c.Event("traces", 1)
		c.Event("trace_events", len(tr.Events))
		traceFacts(c, tr, cfg.name)
		all := mon.Images(tr.Events, mon.ImageOpts{AllSnapPrefix: o.allPrefix})
		var images []*mon.Image
		for _, im := range all {
			if o.classes == nil || o.classes[im.Class] {
				images = append(images, im)
			}
		}
		dirs, results := openImages(c, images, fmt.Sprintf("t%d", ti))
		judge := newCrashJudge(c, tr.Models)
		witBase := map[string]interface{}{"config": cfg.name, "trace_seed": vk.SubSeed(c.Seed, fmt.Sprintf("%s-trace-%d", c.Prop, ti)), "batches": tr.Batches}
		var verdicts []*imageVerdict
		for i, im := range images {
			v := judge.judgeImage(im, &results[i], witBase)
			verdicts = append(verdicts, v)
			if v.State >= 0 {
				if len(im.Files) > 0 && im.Acked >= 1 {
					c.DistinctHash(vk.Hash64(im.Hash))
				} else if im.Class != "boundary" {
					c.DistinctHash(vk.Hash64(im.Hash))
				}
				c.Event("recovered_ok", 1)
			}
		}
		removeAll(dirs)
		if ti == 0 && len(images) > 3 {
			c.Sample(map[string]interface{}{"config": cfg.name, "events": len(tr.Events), "images": len(images), "example_image": images[len(images)/2], "example_files": fileSummary(images[len(images)/2].Files)})
		}
		// depth 2: crash -> recover -> continue -> crash
		if o.depth2 > 0 {
			continueFrom(c, o, cfg, tr, images, verdicts, ti)
		}
	}
}

func continueFrom(c *vk.Ctx, o crashRunOpts, cfg traceCfg, tr *traceResult, images []*mon.Image, verdicts []*imageVerdict, ti int) {
	// pick diverse images that recovered: prefer torn snapshots (recovery to the previous epoch) and stale tails
	var pick []int
	byClass := map[string][]int{}
	for i, v := range verdicts {
		if v.State >= 0 && !v.Failed && images[i].Acked >= 1 {
			cl := images[i].Class
			// a torn newest snapshot: recovery falls back one epoch and the continuing writer rewrites
			// that epoch's file over the torn one (the sequence the property names)
			if (cl == "torn-prefix" || cl == "torn-zero") && strings.Contains(images[i].Desc, ".snp") {
				cl = "torn-snapshot"
			}
			byClass[cl] = append(byClass[cl], i)
		}
	}
	order := []string{"torn-snapshot", "torn-snapshot", "torn-prefix", "torn-stale", "torn-zero", "boundary", "torn-full"}
	for len(pick) < o.depth2 {
		added := false
		for _, cl := range order {
			l := byClass[cl]
			if len(l) == 0 {
				continue
			}
			// take from the middle outwards
			k := l[(len(l)/2+len(pick)*7)%len(l)]
			pick = append(pick, k)
			byClass[cl] = removeInt(l, k)
			added = true
			if len(pick) >= o.depth2 {
				break
			}
		}
		if !added {
			break
		}
	}
	root := c.TempDir("cont-")
	var cases []interface{}
	for n, k := range pick {
		d := filepath.Join(root, fmt.Sprintf("c%03d", n))
		_ = images[k].Materialize(d)
		cases = append(cases, crashContinueCase{Dir: d, Seed: vk.SubSeed(c.Seed, fmt.Sprintf("cont-%d-%d", ti, n)), Batches: o.contBatches, IDs: 6, VPrefix: fmt.Sprintf("c%d-", n), Unsafe: n%3 == 2, SegVer: cfg.fs.SegVer})
	}
	results := vk.RunChildren(c.Scratch(), "crashcontinue", cases, vk.ChildOpts{PerChild: 1, Parallel: runtime.NumCPU(), CaseTimeout: 120 * time.Second, RlimitMB: 3072})
	for n, k := range pick {
		im := images[k]
		res := results[n]
		wit := map[string]interface{}{"config": cfg.name, "first_crash": im, "first_crash_files": fileSummary(im.Files)}
		if res.Faulted() || res.Hung {
			c.Violate("continue-after-recovery-kills-process", fmt.Sprintf("writer continuing from the crash image at %d (%s): %s", im.Pos, im.Class, firstLines(res.Panic+res.Died, 10)), wit)
			continue
		}
		var out crashContinueResult
		if res.Out == nil || json.Unmarshal(res.Out, &out) != nil {
			continue
		}
		if out.OpenErr != "" {
			c.Violate("recovered-writer-cannot-open", fmt.Sprintf("continuing from the crash image at %d (%s): %s", im.Pos, im.Class, out.OpenErr), wit)
			continue
		}
		for _, e := range out.Errs {
			c.Violate("recovered-writer-rejects-batch", fmt.Sprintf("continuing from the crash image at %d (%s): %s", im.Pos, im.Class, e), wit)
		}
		// model continues from the recovered state
		start := &model.Index{}
		st := verdicts[k].State
		start.Docs = append(start.Docs, tr.Models[st].Docs...)
		if fmt.Sprint(out.Start) != fmt.Sprint(modelDump(start)) && !(len(out.Start) == 0 && len(start.Docs) == 0) {
			c.Violate("recovery-not-repeatable", fmt.Sprintf("the same crash image recovered %v in one process and %v in another", modelDump(start), out.Start), wit)
			continue
		}
		models := []*model.Index{start}
		cur := start
		for _, b := range out.Batches {
			cur = cur.Apply(b)
			models = append(models, cur)
		}
		imgs2 := mon.Images(out.Events, mon.ImageOpts{Initial: im.Files, AllSnapPrefix: false})
		// thin out: depth-2 images are many
		if len(imgs2) > 500 {
			sort.Slice(imgs2, func(a, b int) bool { return imgs2[a].Hash < imgs2[b].Hash })
			imgs2 = imgs2[:500]
		}
		dirs, res2 := openImages(c, imgs2, fmt.Sprintf("t%dc%d", ti, n))
		judge := newCrashJudge(c, models)
		wb := map[string]interface{}{"config": cfg.name, "depth": 2, "first_crash": im, "continued_batches": out.Batches}
		for i, im2 := range imgs2 {
			v := judge.judgeImage(im2, &res2[i], wb)
			if v.State >= 0 {
				c.Event("depth2_images_recovered", 1)
				c.DistinctHash(vk.Hash64("d2" + im2.Hash))
			}
		}
		removeAll(dirs)
		c.Event("depth2_continuations", 1)
		c.Event("depth2_from_"+im.Class, 1)
	}
}

func removeInt(l []int, v int) []int {
	out := l[:0:0]
	for _, x := range l {
		if x != v {
			out = append(out, x)
		}
	}
	return out
}

func runC02(c *vk.Ctx) {
	c.Rule("generated batch histories (single issuer, 6 ids, updates/deletes/empty batches) on a real directory behind a recording wrapper, in safe mode (ack = Batch returned nil) and unsafe mode with persisted-callbacks (ack = callback(nil)), merge-happy / in-memory-merge / retention 1..3 configurations with seeded jitter at every directory seam; " +
		"for every trace: ordering facts at each ack, then every crash point = every boundary between recorded operations (in-flight files complete or absent), materialised and opened in a child by OpenReader (both loaders) and OpenWriter; the recovered content must be the abstract index after some batch j with acked <= j <= started. " +
		"distinct non-trivial = distinct crash-image contents holding at least one file, at a position after at least one acknowledgement")
	c.Assume("a completed fsync makes file content durable; created/removed directory entries are durable at operation completion; no bit rot in completed files",
		"acknowledgements are logged after the call returned / the callback ran, which can only make the oracle more lenient",
		"single issuing goroutine, so the applied order is the call order; the concurrent part (2..4 issuers on disjoint ids, safe mode, jitter at every directory / plug-in / event seam) judges every crash image per issuer: that issuer's documents must be its own state after j batches, last acknowledged <= j <= last called")
	start := time.Now()
	runCrashEngine(c, crashRunOpts{traces: c.Pick(10, 160), batches: c.Pick(24, 40),
		classes: map[string]bool{"boundary": true, "torn-full": true, "torn-absent": true}})
	_ = start
	c02Concurrent(c)
	c.Require("acks_seen", 50)
	c.Require("images_boundary", 200)
	c.Require("snapshot_persists_seen", 20)
	c.Require("removes_seen", 10)
}

func runC03(c *vk.Ctx) {
	c.Rule("the traces of C02's workload; every crash point including the torn states of every persist in flight: prefix lengths (all lengths for snapshot files in the thorough tier, a boundary set otherwise), zero-filled, half-written, and a new prefix followed by the stale tail of an earlier file of the same name; each image opened in a child by OpenReader (mmap / no mmap) and OpenWriter, followed by a further batch; " +
		"depth 2: selected recovered images are continued by a fresh writer (its own recorded trace) and crashed again. distinct non-trivial = distinct torn or depth-2 image contents that recovered to a prefix state")
	c.Assume("storage model as in C02; torn states of an in-flight file are: absent, any prefix, zero-filled, prefix + stale tail",
		"a recovered state must be the abstract index after some batch between the last acknowledged and the last started one")
	runCrashEngine(c, crashRunOpts{traces: c.Pick(5, 40), batches: c.Pick(16, 30), allPrefix: !c.Quick(), depth2: c.Pick(4, 10), contBatches: c.Pick(8, 14)})
	c.Require("images_torn-prefix", 100)
	c.Require("images_torn-zero", 20)
	c.Require("depth2_continuations", 3)
	c.Require("depth2_images_recovered", 100)
}
