package checks

import (
	"fmt"
	"math/rand"
	"runtime"
	"sort"
	"strings"
	"sync"

	"github.com/blugelabs/bluge"
	"github.com/blugelabs/bluge/numeric"
	"github.com/blugelabs/bluge/search"

	"verif/harness/bx"
	"verif/harness/model"
	"verif/harness/vk"
)

func init() {
	register(&Check{ID: "C09", Level: "exploration", Run: runC09})
}

type sortKey struct {
	Field        string // _score _id k n d
	Desc, MFirst bool
}

func (k sortKey) String() string {
	s := k.Field
	if k.Desc {
		s = "-" + s
	}
	if k.MFirst {
		s += "(missing first)"
	}
	return s
}

func mkSortOrder(ks []sortKey) search.SortOrder {
	var so search.SortOrder
	for _, k := range ks {
		var s *search.Sort
		if k.Field == "_score" {
			s = search.SortBy(search.DocumentScore())
		} else {
			s = search.SortBy(search.Field(k.Field))
		}
		if k.Desc {
			s.Desc()
		}
		if k.MFirst {
			s.MissingFirst()
		}
		so = append(so, s)
	}
	return so
}

type refHit struct {
	doc   *model.Doc
	score float64
	hit   int // enumeration (index) order
}

// keyCmp compares two hits on one key by the model's values. missing: first/last as requested.
func keyCmp(a, b *refHit, k sortKey) int {
	type val struct {
		missing bool
		s       string
		i       int64
		f       float64
		kind    int
	}
	get := func(h *refHit) val {
		switch k.Field {
		case "_score":
			return val{f: h.score, kind: 2}
		case "_id":
			return val{s: h.doc.ID}
		case "k":
			if v := h.doc.Kw["k"]; len(v) > 0 {
				return val{s: v[0]}
			}
		case "n":
			if v := h.doc.Num["n"]; len(v) > 0 {
				return val{i: numeric.Float64ToInt64(v[0]), kind: 1}
			}
		case "d":
			if v := h.doc.Date["d"]; len(v) > 0 {
				return val{i: v[0], kind: 1}
			}
		}
		return val{missing: true}
	}
	va, vb := get(a), get(b)
	if va.missing || vb.missing {
		if va.missing && vb.missing {
			return 0
		}
		// position in the OUTPUT order: missing first or last as requested
		if va.missing == k.MFirst {
			return -1
		}
		return 1
	}
	c := 0
	switch va.kind {
	case 0:
		c = strings.Compare(va.s, vb.s)
	case 1:
		if va.i < vb.i {
			c = -1
		} else if va.i > vb.i {
			c = 1
		}
	case 2:
		if va.f < vb.f {
			c = -1
		} else if va.f > vb.f {
			c = 1
		}
	}
	if k.Desc {
		c = -c
	}
	return c
}

func refLess(a, b *refHit, ks []sortKey) bool {
	for _, k := range ks {
		if c := keyCmp(a, b, k); c != 0 {
			return c < 0
		}
	}
	return a.hit < b.hit
}

type c09Witness struct {
	Batches []*model.Batch
	Query   *model.Q
	Keys    []sortKey
	N, From int
	Mode    string
	Page    int
	Want    []string
	Got     []string
}

func idsOf(hits []bx.Hit) []string {
	out := make([]string, len(hits))
	for i, h := range hits {
		out[i] = h.ID
	}
	return out
}

func c09Corpus(c *vk.Ctx, i int) {
	r := rand.New(rand.NewSource(vk.SubSeed(c.Seed, fmt.Sprintf("c09-%d", i))))
	co := model.GenCorpus(r, model.CorpusOpts{MaxDocs: 45})
	cfg := bx.NoMerge(bluge.InMemoryOnlyConfig())
	w, err := bluge.OpenWriter(cfg)
	if err != nil {
		c.Violate("harness-open", err.Error(), nil)
		return
	}
	defer w.Close()
	for _, b := range co.Batches {
		if err := w.Batch(b.ToBluge()); err != nil {
			c.Violate("harness-batch", err.Error(), nil)
		}
	}
	// a superseded reader for most corpora (no iterator recycling), a current-root one for the rest
	rd, _ := w.Reader()
	if i%3 != 0 {
		nb := bluge.NewBatch()
		nb.Delete(bluge.Identifier("no-such-document"))
		_ = w.Batch(nb)
	}
	defer rd.Close()
	byV := map[string]*model.Doc{}
	for _, d := range co.Final.Docs {
		byV[d.V] = d
	}
	nParam := c.Pick(60, 80)
	queries := []*model.Q{{Kind: "all"}}
	for k := 0; k < 3; k++ {
		queries = append(queries, model.GenLeaf(r, co, []string{"term", "match", "prefix"}[k]))
	}
	queries[2].And = false
	for _, q := range queries {
		all, err := bx.SearchIDs(rd, bluge.NewAllMatches(q.ToBluge()))
		if err != nil {
			c.Violate("harness-allmatches", err.Error(), nil)
			continue
		}
		// the complete match list with scores and index order; stored "v" identifies the model doc
		full, _, _ := bx.SafeCollect(rd, bluge.NewAllMatches(q.ToBluge()), true)
		var ref []*refHit
		for hi, h := range full {
			var d *model.Doc
			if v := h.Stored["v"]; len(v) > 0 {
				d = byV[v[0]]
			}
			if d == nil {
				c.Violate("harness-unknown-doc", "hit without model document", nil)
				return
			}
			ref = append(ref, &refHit{doc: d, score: h.Score, hit: hi})
		}
		_ = all
		m := len(ref)
		scoreTies := false
		seenScore := map[float64]bool{}
		for _, h := range ref {
			if seenScore[h.score] {
				scoreTies = true
			}
			seenScore[h.score] = true
		}
		for p := 0; p < nParam/len(queries)+1; p++ {
			var ks []sortKey
			fields := []string{"_score", "k", "n", "d", "_id", "k", "n"}
			for x := 0; x < 1+r.Intn(3); x++ {
				ks = append(ks, sortKey{Field: fields[r.Intn(len(fields))], Desc: r.Intn(2) == 0, MFirst: r.Intn(2) == 0})
			}
			sorted := append([]*refHit(nil), ref...)
			sort.SliceStable(sorted, func(a, b int) bool { return refLess(sorted[a], sorted[b], ks) })
			refIDs := make([]string, m)
			for x, h := range sorted {
				refIDs[x] = h.doc.ID
			}
			ns := []int{0, 1, 2, 5, 9, 10, 11, 12, 40, m, m + 1, 999, 1000, 1001, 1005}
			froms := []int{0, 0, 1, 3, 9, 10, 11, 50, m - 1, m, m + 1, 995, 1000}
			n, from := ns[r.Intn(len(ns))], froms[r.Intn(len(froms))]
			if n < 0 {
				n = 0
			}
			if from < 0 {
				from = 0
			}
			hits, err := bx.SearchIDs(rd, bluge.NewTopNSearch(n, q.ToBluge()).SetFrom(from).SortByCustom(mkSortOrder(ks)))
			c.Eval(1)
			if err != nil {
				c.Violate("topn-error", err.Error(), &c09Witness{Batches: co.Batches, Query: q, Keys: ks, N: n, From: from, Mode: "topn"})
				continue
			}
			got := idsOf(hits)
			lo, hi := from, from+n
			if lo > m {
				lo = m
			}
			if hi > m {
				hi = m
			}
			want := refIDs[lo:hi]
			store := "slice"
			if n+from > 10 {
				store = "heap"
			}
			if n+from > 1000 {
				store = "heap-over-prealloc-cap"
			}
			c.Event("topn_store_"+store, 1)
			if fmt.Sprint(got) != fmt.Sprint(want) {
				c.Violate("topn-wrong-slice", fmt.Sprintf("query %s sort %v n=%d from=%d (%d matches): want %v got %v", q, ks, n, from, m, want, got),
					&c09Witness{Batches: co.Batches, Query: q, Keys: ks, N: n, From: from, Mode: "topn", Want: want, Got: got})
			} else if len(want) > 0 {
				shape := ""
				for _, k := range ks {
					shape += k.String() + ","
				}
				c.DistinctHash(vk.Hash64(fmt.Sprintf("%s|n%d|f%d|ties%v|%s", shape, bucket(n), bucket(from), scoreTies, store)))
			}
		}
		// paging under a total order (last key _id)
		if m == 0 {
			continue
		}
		var ks []sortKey
		fields := []string{"_score", "k", "n", "d"}
		for x := 0; x < r.Intn(3); x++ {
			ks = append(ks, sortKey{Field: fields[r.Intn(len(fields))], Desc: r.Intn(2) == 0, MFirst: r.Intn(2) == 0})
		}
		ks = append(ks, sortKey{Field: "_id", Desc: r.Intn(2) == 0})
		sorted := append([]*refHit(nil), ref...)
		sort.SliceStable(sorted, func(a, b int) bool { return refLess(sorted[a], sorted[b], ks) })
		refIDs := make([]string, m)
		for x, h := range sorted {
			refIDs[x] = h.doc.ID
		}
		var pageSizes []int
		if m <= 14 {
			for ps := 1; ps <= m+1; ps++ {
				pageSizes = append(pageSizes, ps)
			}
		} else {
			pageSizes = []int{1, 2, 3, 1 + r.Intn(m), 9, 10, 11, m - 1, m, m + 1}
		}
		// the sort values of the last element, to start the backward chain
		lastHits, err := bx.SearchIDs(rd, bluge.NewTopNSearch(m+1, q.ToBluge()).SortByCustom(mkSortOrder(ks)))
		if err != nil || len(lastHits) != m {
			c.Violate("paging-setup", fmt.Sprintf("full ranking returned %d of %d (err %v)", len(lastHits), m, err), &c09Witness{Batches: co.Batches, Query: q, Keys: ks, Mode: "full"})
			continue
		}
		for _, ps := range pageSizes {
			for _, mode := range []string{"after", "before", "before-reusing-sort-order"} {
				var visited []string
				var key [][]byte
				shared := mkSortOrder(ks)
				pages := 0
				if strings.HasPrefix(mode, "before") {
					key = lastHits[m-1].Sort
					visited = []string{refIDs[m-1]}
				}
				ok := true
				for page := 0; page <= m+2; page++ {
					so := mkSortOrder(ks)
					if mode == "before-reusing-sort-order" {
						so = shared
					}
					req := bluge.NewTopNSearch(ps, q.ToBluge()).SortByCustom(so)
					if mode == "after" {
						if key != nil {
							req.After(key)
						}
					} else {
						req.Before(key)
					}
					hits, err := bx.SearchIDs(rd, req)
					c.Eval(1)
					if err != nil {
						c.Violate("paging-error:"+mode, err.Error(), &c09Witness{Batches: co.Batches, Query: q, Keys: ks, N: ps, Mode: mode, Page: page})
						ok = false
						break
					}
					if len(hits) == 0 {
						break
					}
					pages++
					if mode == "after" {
						visited = append(visited, idsOf(hits)...)
						key = hits[len(hits)-1].Sort
					} else {
						visited = append(idsOf(hits), visited...)
						key = hits[0].Sort
					}
					if len(visited) > m+5 {
						break
					}
				}
				if !ok {
					continue
				}
				c.Event("page_chains_"+mode, 1)
				if fmt.Sprint(visited) != fmt.Sprint(refIDs) {
					c.Violate("paging-chain-wrong:"+mode, fmt.Sprintf("query %s sort %v page size %d (%d matches): want %v visited %v", q, ks, ps, m, refIDs, visited),
						&c09Witness{Batches: co.Batches, Query: q, Keys: ks, N: ps, Mode: mode, Want: refIDs, Got: visited})
				} else if pages >= 2 {
					c.DistinctHash(vk.Hash64(fmt.Sprintf("page|%s|%d|%d", mode, len(ks), bucket(ps))))
				}
			}
		}
	}
	if i < 2 {
		c.Sample(map[string]interface{}{"docs": len(co.Final.Docs), "queries": []string{queries[0].String(), queries[1].String(), queries[2].String()}})
	}
}

func bucket(n int) int {
	switch {
	case n <= 2:
		return n
	case n < 9:
		return 5
	case n <= 12:
		return n
	case n < 999:
		return 40
	}
	return n
}

// c09Deep: a corpus with MORE matches than the collector's pre-allocation cap (1000), so that requests
// with from+n beyond the cap really have something to return there (the generated corpora above are
// small: their deep requests only meet the "fewer matches than asked for" side).
func c09Deep(c *vk.Ctx, i int) {
	r := rand.New(rand.NewSource(vk.SubSeed(c.Seed, fmt.Sprintf("c09-deep-%d", i))))
	total := 1100 + r.Intn(900)
	w, err := bluge.OpenWriter(bx.NoMerge(bluge.InMemoryOnlyConfig()))
	if err != nil {
		c.Violate("harness-open", err.Error(), nil)
		return
	}
	defer w.Close()
	perm := r.Perm(total)
	type dd struct {
		id string
		n  int
		k  string
	}
	var docs []dd
	b := bluge.NewBatch()
	for x := 0; x < total; x++ {
		d := dd{id: fmt.Sprintf("d%05d", x), n: perm[x], k: fmt.Sprintf("k%d", perm[x]%7)}
		docs = append(docs, d)
		doc := bluge.NewDocument(d.id).AddField(bluge.NewNumericField("n", float64(d.n)).Sortable()).
			AddField(bluge.NewKeywordField("k", d.k).Sortable()).AddField(bluge.NewKeywordField("all", "x"))
		b.Update(doc.ID(), doc)
		if x%(150+i*37) == 149 || x == total-1 {
			if err := w.Batch(b); err != nil {
				c.Violate("harness-batch", err.Error(), nil)
				return
			}
			b = bluge.NewBatch()
		}
	}
	rd, err := w.Reader()
	if err != nil {
		c.Violate("harness-reader", err.Error(), nil)
		return
	}
	defer rd.Close()
	type ord struct {
		name string
		so   search.SortOrder
		less func(a, b dd) bool
	}
	orders := []ord{
		{"n asc", search.SortOrder{search.SortBy(search.Field("n"))}, func(a, b dd) bool { return a.n < b.n }},
		{"n desc", search.SortOrder{search.SortBy(search.Field("n")).Desc()}, func(a, b dd) bool { return a.n > b.n }},
		{"k asc, _id desc", search.SortOrder{search.SortBy(search.Field("k")), search.SortBy(search.Field("_id")).Desc()}, func(a, b dd) bool {
			if a.k != b.k {
				return a.k < b.k
			}
			return a.id > b.id
		}},
		// heavy ties over more than a thousand matches: broken by index order (= insertion order = id order here)
		{"k asc, ties by index order", search.SortOrder{search.SortBy(search.Field("k"))}, func(a, b dd) bool {
			if a.k != b.k {
				return a.k < b.k
			}
			return a.id < b.id
		}},
		{"k desc, ties by index order", search.SortOrder{search.SortBy(search.Field("k")).Desc()}, func(a, b dd) bool {
			if a.k != b.k {
				return a.k > b.k
			}
			return a.id < b.id
		}},
		{"score (all equal), ties by index order", search.SortOrder{search.SortBy(search.DocumentScore()).Desc()}, func(a, b dd) bool { return a.id < b.id }},
	}
	pairs := [][2]int{{1001, 0}, {20, 995}, {20, 1000}, {20, total - 30}, {2000, 100}, {500, 600}, {1, 1000}, {10, 999}, {total, 0}, {total + 5, 3}, {50, 1200 % total}, {3, total - 1}}
	for _, o := range orders {
		sorted := append([]dd(nil), docs...)
		sort.Slice(sorted, func(a, b int) bool { return o.less(sorted[a], sorted[b]) })
		for _, p := range pairs {
			n, from := p[0], p[1]
			req := bluge.NewTopNSearch(n, bluge.NewTermQuery("x").SetField("all")).SetFrom(from).SortByCustom(o.so)
			hits, err := bx.SearchIDs(rd, req)
			c.Eval(1)
			if err != nil {
				c.Violate("topn-error", err.Error(), map[string]interface{}{"docs": total, "n": n, "from": from, "sort": o.name})
				continue
			}
			lo, hi := from, from+n
			if lo > total {
				lo = total
			}
			if hi > total {
				hi = total
			}
			var want []string
			for _, d := range sorted[lo:hi] {
				want = append(want, d.id)
			}
			got := idsOf(hits)
			if n+from > 1000 {
				c.Event("deep_requests_beyond_the_prealloc_cap_with_more_matches", 1)
			}
			if fmt.Sprint(got) != fmt.Sprint(want) {
				c.Violate("topn-wrong-slice", fmt.Sprintf("%d matches, sort %s, n=%d from=%d: want %d results %v..., got %d results %v...", total, o.name, n, from, len(want), clipIDs(want), len(got), clipIDs(got)),
					map[string]interface{}{"docs": total, "n": n, "from": from, "sort": o.name, "want": want, "got": got})
			} else if len(want) > 0 {
				c.DistinctHash(vk.Hash64(fmt.Sprintf("deep|%s|n%d|f%d", o.name, bucket(n), bucket(from))))
			}
		}
	}
}

// c09Parallel: the same score-ordered requests issued by several goroutines at once on one reader must
// each return the slice of the complete ranking (scores taken from one sequential all-matches run; ties
// by index order) - a ranking may not depend on what other searches are doing at that moment.
func c09Parallel(c *vk.Ctx, i int) {
	r := rand.New(rand.NewSource(vk.SubSeed(c.Seed, fmt.Sprintf("c09-par-%d", i))))
	w, err := bluge.OpenWriter(bx.NoMerge(bluge.InMemoryOnlyConfig()))
	if err != nil {
		return
	}
	defer w.Close()
	total := 300 + r.Intn(400)
	b := bluge.NewBatch()
	for x := 0; x < total; x++ {
		words := append(rep("w", 1+r.Intn(8)), rep("x", r.Intn(12))...)
		doc := bluge.NewDocument(fmt.Sprintf("p%04d", x)).AddField(bluge.NewTextField("t", strings.Join(words, " ")))
		b.Update(doc.ID(), doc)
		if x%97 == 96 {
			_ = w.Batch(b)
			b = bluge.NewBatch()
		}
	}
	_ = w.Batch(b)
	rd, err := w.Reader()
	if err != nil {
		return
	}
	defer rd.Close()
	q := func() bluge.Query { return bluge.NewMatchQuery("w").SetField("t") }
	full, _, err := bx.SafeCollect(rd, bluge.NewAllMatches(q()), false)
	if err != nil || len(full) != total {
		c.Violate("harness-allmatches", fmt.Sprintf("%v, %d of %d", err, len(full), total), nil)
		return
	}
	type sh struct {
		id    string
		score float64
		hit   int
	}
	var ref []sh
	for k, h := range full {
		ref = append(ref, sh{h.ID, h.Score, k})
	}
	sort.SliceStable(ref, func(a, b int) bool {
		if ref[a].score != ref[b].score {
			return ref[a].score > ref[b].score
		}
		return ref[a].hit < ref[b].hit
	})
	var mu sync.Mutex
	bad := 0
	var wg sync.WaitGroup
	for g := 0; g < 8; g++ {
		wg.Add(1)
		go func(g int) {
			defer wg.Done()
			gr := rand.New(rand.NewSource(int64(i*100 + g)))
			for k := 0; k < 25; k++ {
				n, from := []int{5, 10, 11, 50, 200}[gr.Intn(5)], []int{0, 0, 3, 10, 100}[gr.Intn(5)]
				hits, err := bx.SearchIDs(rd, bluge.NewTopNSearch(n, q()).SetFrom(from))
				if err != nil {
					continue
				}
				lo, hi := from, from+n
				if hi > total {
					hi = total
				}
				var want []string
				for _, s := range ref[lo:hi] {
					want = append(want, s.id)
				}
				got := idsOf(hits)
				mu.Lock()
				c.Eval(1)
				c.Event("parallel_score_ordered_searches", 1)
				if fmt.Sprint(got) != fmt.Sprint(want) && bad < 3 {
					bad++
					c.Violate("topn-wrong-slice:concurrent-searches", fmt.Sprintf("8 goroutines searching one reader at once, score order, n=%d from=%d over %d matches: want %v... got %v...", n, from, total, clipIDs(want), clipIDs(got)),
						map[string]interface{}{"n": n, "from": from, "matches": total, "want": want, "got": got})
				}
				mu.Unlock()
			}
		}(g)
	}
	wg.Wait()
	if bad == 0 {
		c.DistinctHash(vk.Hash64(fmt.Sprintf("parallel|%d", total)))
	}
}

// c09EmptyKey: a present but EMPTY text key is a key ("" sorts before every other text), not a missing
// one: documents with k = "", with other keys and without the field, all four direction / missing
// placements, windows over the whole ranking.
func c09EmptyKey(c *vk.Ctx, i int) {
	r := rand.New(rand.NewSource(vk.SubSeed(c.Seed, fmt.Sprintf("c09-empty-%d", i))))
	w, err := bluge.OpenWriter(bx.NoMerge(bluge.InMemoryOnlyConfig()))
	if err != nil {
		return
	}
	defer w.Close()
	type dd struct {
		id      string
		k       string
		missing bool
		hit     int
	}
	var docs []dd
	total := 12 + r.Intn(20)
	b := bluge.NewBatch()
	for x := 0; x < total; x++ {
		d := dd{id: fmt.Sprintf("e%03d", x), hit: x}
		doc := bluge.NewDocument(d.id).AddField(bluge.NewKeywordField("all", "x"))
		switch r.Intn(4) {
		case 0:
			d.missing = true
		case 1:
			d.k = ""
			doc.AddField(bluge.NewKeywordField("k", "").Sortable())
		default:
			d.k = []string{"a", "b", "ab", "c"}[r.Intn(4)]
			doc.AddField(bluge.NewKeywordField("k", d.k).Sortable())
		}
		docs = append(docs, d)
		b.Update(doc.ID(), doc)
		if x%5 == 4 {
			_ = w.Batch(b)
			b = bluge.NewBatch()
		}
	}
	_ = w.Batch(b)
	rd, err := w.Reader()
	if err != nil {
		return
	}
	defer rd.Close()
	for _, desc := range []bool{false, true} {
		for _, mfirst := range []bool{false, true} {
			sorted := append([]dd(nil), docs...)
			sort.SliceStable(sorted, func(a, b int) bool {
				x, y := sorted[a], sorted[b]
				if x.missing || y.missing {
					if x.missing && y.missing {
						return x.hit < y.hit
					}
					return x.missing == mfirst
				}
				if x.k != y.k {
					return (x.k < y.k) != desc
				}
				return x.hit < y.hit
			})
			s := search.SortBy(search.Field("k"))
			name := "asc"
			if desc {
				s.Desc()
				name = "desc"
			}
			if mfirst {
				s.MissingFirst()
				name += "-missing-first"
			} else {
				name += "-missing-last"
			}
			for _, p := range [][2]int{{total, 0}, {5, 0}, {5, total - 6}, {11, 3}} {
				n, from := p[0], p[1]
				hits, err := bx.SearchIDs(rd, bluge.NewTopNSearch(n, bluge.NewTermQuery("x").SetField("all")).SetFrom(from).SortByCustom(search.SortOrder{s}))
				c.Eval(1)
				if err != nil {
					continue
				}
				lo, hi := from, from+n
				if hi > total {
					hi = total
				}
				var want []string
				for _, d := range sorted[lo:hi] {
					want = append(want, d.id)
				}
				got := idsOf(hits)
				c.Event("empty_string_key_requests", 1)
				if fmt.Sprint(got) != fmt.Sprint(want) {
					c.Violate("empty-string-key-misplaced:"+name, fmt.Sprintf("sort by k %s, n=%d from=%d over documents with k in {\"\", a, ab, b, c} or without k: want %v got %v", name, n, from, want, got),
						map[string]interface{}{"docs": docs, "order": name, "n": n, "from": from, "want": want, "got": got})
				} else {
					c.DistinctHash(vk.Hash64(fmt.Sprintf("emptykey|%s|%d|%d", name, bucket(n), bucket(from))))
				}
			}
		}
	}
}

func clipIDs(l []string) []string {
	if len(l) > 6 {
		return l[:6]
	}
	return l
}

func runC09(c *vk.Ctx) {
	c.Rule("generated corpora (multi-segment, pending deletions, single-valued sort fields with missing values and heavy ties) x queries (match-all, term, match, prefix) x sort orders of 1..3 keys from {_score,k,n,d,_id} x asc/desc x missing first/last x (n, from) around 0, the slice/heap switch at 10, the result count and the 1000 pre-allocation cap; " +
		"reference = all matches ordered by a comparator over the model's field values, ties by enumeration order; paging: After and Before chains under a total order for all page sizes; the same windows and After chains through MultiSearch over 2..4 readers holding parts of the documents; " +
		"distinct non-trivial = distinct (sort shape, n class, from class, ties present, store kind) with a non-empty slice, plus (mode, keys, page size class) chains of >= 2 pages")
	c.Assume("sort fields are single-valued (the property does not say which value of a multi-valued field sorts)",
		"scores used by _score keys are the hit's own score from the all-matches run on the same reader",
		"index order = enumeration order of the all-matches collector")
	nCorp := c.Pick(240, 4000)
	workers := runtime.NumCPU()
	var wg sync.WaitGroup
	for w := 0; w < workers; w++ {
		wg.Add(1)
		go func(w int) {
			defer wg.Done()
			for i := w; i < nCorp; i += workers {
				c09Corpus(c, i)
				c.Event("corpora", 1)
			}
		}(w)
	}
	wg.Wait()
	for i := 0; i < c.Pick(2, 24); i++ {
		c09Deep(c, i)
	}
	for i := 0; i < c.Pick(20, 400); i++ {
		c09EmptyKey(c, i)
	}
	for i := 0; i < c.Pick(6, 120); i++ {
		c09Parallel(c, i)
	}
	for i := 0; i < c.Pick(12, 240); i++ {
		c09Multi(c, i)
	}
	c.Require("multisearch_sorted_windows", 100)
	c.Require("multisearch_after_chains", 20)
	c.Require("deep_requests_beyond_the_prealloc_cap_with_more_matches", 10)
	c.Require("topn_store_slice", 50)
	c.Require("topn_store_heap", 50)
	c.Require("topn_store_heap-over-prealloc-cap", 10)
	c.Require("page_chains_after", 50)
	c.Require("page_chains_before", 50)
}
