package checks

import (
	"encoding/json"
	"fmt"
	"math/rand"
	"runtime"
	"sort"
	"strings"
	"time"

	"github.com/blugelabs/bluge"
	"github.com/blugelabs/bluge/search"
	"github.com/blugelabs/bluge/search/aggregations"

	"verif/harness/bx"
	"verif/harness/model"
	"verif/harness/mon"
	"verif/harness/vk"
)

func init() {
	register(&Check{ID: "C04", Level: "exploration", Run: runC04})
	vk.RegisterChild("c04run", c04Child)
}

type c04Case struct {
	Seed   int64
	Dir    string
	SegVer int
	Loader string
	Gate   string // which background step is gated between reads: remove merge-intro persist-swap none
	Unsafe bool
}

type c04Finding struct {
	Key  string
	What string
}

type c04Result struct {
	Findings     []c04Finding
	Comparisons  int
	Pairs        map[string]int // "readerKind|stepKind" -> times a step landed between two fingerprints
	Steps        map[string]int
	GateReached  bool
	Batches      []*model.Batch `json:",omitempty"`
}

type heldReader struct {
	rd    *bluge.Reader
	kind  string
	age   int
	fp    string
	parts map[string]string
	state []string
}

// fingerprint reads everything a Reader exposes: count, all documents with stored fields,
// document values (through sorts and aggregations), every field's dictionary, and a query battery.
func fingerprint(rd *bluge.Reader, queries []*model.Q) (string, map[string]string, error) {
	parts := map[string]string{}
	n, err := rd.Count()
	if err != nil {
		return "", nil, err
	}
	parts["count"] = fmt.Sprint(n)
	hits, _, err := bx.SafeCollect(rd, bluge.NewAllMatches(bluge.NewMatchAllQuery()), true)
	if err != nil {
		return "", nil, err
	}
	var docs []string
	for _, h := range hits {
		var fs []string
		for f, vs := range h.Stored {
			fs = append(fs, fmt.Sprintf("%s=%q", f, vs))
		}
		sort.Strings(fs)
		docs = append(docs, fmt.Sprintf("#%d %s", h.Number, strings.Join(fs, " ")))
	}
	parts["documents"] = strings.Join(docs, "\n")
	// document values
	req := bluge.NewTopNSearch(1000, bluge.NewMatchAllQuery()).SortBy([]string{"k", "-n", "d", "_id"})
	req.AddAggregation("terms", aggregations.NewTermsAggregation(search.Field("k"), 100))
	req.AddAggregation("sum", aggregations.Sum(search.Field("n")))
	req.AddAggregation("card", aggregations.Cardinality(search.Field("k")))
	sh, ag, err := bx.SafeCollect(rd, req, false)
	if err != nil {
		return "", nil, err
	}
	var dv []string
	for _, h := range sh {
		dv = append(dv, fmt.Sprintf("%s:%x", h.ID, h.Sort))
	}
	var tb []string
	for _, b := range ag.Buckets("terms") {
		tb = append(tb, fmt.Sprintf("%s:%d", b.Name(), b.Count()))
	}
	sort.Strings(tb)
	parts["docvalues"] = strings.Join(dv, " ") + fmt.Sprintf(" | terms %v sum %v card %v", tb, ag.Metric("sum"), ag.Metric("card"))
	// dictionaries
	fields, err := rd.Fields()
	if err != nil {
		return "", nil, err
	}
	sort.Strings(fields)
	var dict []string
	for _, f := range fields {
		it, err := rd.DictionaryIterator(f, nil, nil, nil)
		if err != nil {
			return "", nil, err
		}
		var terms []string
		for {
			e, err := it.Next()
			if err != nil {
				_ = it.Close()
				return "", nil, err
			}
			if e == nil {
				break
			}
			terms = append(terms, fmt.Sprintf("%x:%d", e.Term(), e.Count()))
		}
		_ = it.Close()
		dict = append(dict, f+"{"+strings.Join(terms, ",")+"}")
	}
	parts["dictionaries"] = strings.Join(dict, " ")
	var qs []string
	for i, q := range queries {
		var req bluge.SearchRequest = bluge.NewAllMatches(q.ToBluge())
		if i%3 == 0 {
			req = bluge.NewTopNSearch(5, q.ToBluge()).SortBy([]string{"-_score", "_id"})
		}
		hs, _, err := bx.SafeCollect(rd, req, false)
		if err != nil {
			if err == bx.ErrStepLimit {
				qs = append(qs, "step-limit")
				continue
			}
			return "", nil, fmt.Errorf("query %s: %w", q, err)
		}
		var ids []string
		for _, h := range hs {
			ids = append(ids, fmt.Sprintf("%s/%.6g", h.ID, h.Score))
		}
		if i%3 != 0 {
			sort.Strings(ids)
		}
		qs = append(qs, strings.Join(ids, ","))
	}
	parts["queries"] = strings.Join(qs, "\n")
	all := ""
	for _, k := range []string{"count", "documents", "docvalues", "dictionaries", "queries"} {
		all += k + ":" + parts[k] + "\n"
	}
	return fmt.Sprintf("%016x", vk.Hash64(all)), parts, nil
}

func c04Child(in json.RawMessage) (interface{}, error) {
	var cs c04Case
	if err := json.Unmarshal(in, &cs); err != nil {
		return nil, err
	}
	res := &c04Result{Pairs: map[string]int{}, Steps: map[string]int{}}
	add := func(key, what string) {
		if len(res.Findings) < 20 {
			res.Findings = append(res.Findings, c04Finding{key, what})
		}
	}
	r := rand.New(rand.NewSource(cs.Seed))
	freshDir(cs.Dir) // (a case can be run a second time by the child runner)
	rg := newRig(rigOpts{Dir: cs.Dir, SegVer: cs.SegVer, Loader: cs.Loader, Merge: "happy", MemMerge: cs.Seed%2 == 0, Unsafe: cs.Unsafe, Seed: cs.Seed | 1})
	w, err := bluge.OpenWriter(rg.Cfg)
	if err != nil {
		add("harness-open", err.Error())
		return res, nil
	}
	batches := genRichHistory(r, 26, 7)
	res.Batches = batches
	co := &model.Corpus{Vocab: model.GenVocab(rand.New(rand.NewSource(cs.Seed)), 5), GeoCX: 10, GeoCY: 20, GeoSpr: 30}
	var queries []*model.Q
	for k := 0; k < 24; k++ {
		queries = append(queries, model.GenQuery(r, co, model.QueryOpts{Kinds: []string{"term", "term", "match", "matchphrase", "prefix", "wildcard", "termrange", "numrange", "all", "kwterm", "fuzzy", "regexp"}}, 2))
	}
	for _, q := range queries {
		if q.Kind == "fuzzy" && q.Fuzz == 0 {
			q.Fuzz = 1
		}
	}
	var held []*heldReader
	cur := &model.Index{}
	recheck := func(step string) {
		for _, h := range held {
			for rep := 0; rep < 2; rep++ { // twice back to back: a reader must also agree with itself
				fp, parts, err := fingerprint(h.rd, queries)
				res.Comparisons++
				if err != nil {
					add("reader-fails:"+h.kind, fmt.Sprintf("%s reader acquired after batch %d fails after step %q: %v", h.kind, h.age, step, err))
					break
				}
				if fp != h.fp {
					diff := ""
					for k, v := range parts {
						if h.parts[k] != v {
							diff = fmt.Sprintf("%s was %q now %q", k, clipStr(h.parts[k], 300), clipStr(v, 300))
							break
						}
					}
					key := "reader-changed:" + h.kind
					if rep == 1 {
						key = "reader-disagrees-with-itself:" + h.kind
					}
					add(key, fmt.Sprintf("%s reader acquired after batch %d answers differently after step %q: %s", h.kind, h.age, step, diff))
					break
				}
			}
			res.Pairs[h.kind+"|"+step]++
		}
		res.Steps[step]++
	}
	acquire := func(age int) {
		rd, err := w.Reader()
		if err != nil {
			add("reader-error", err.Error())
			return
		}
		d, err := dumpReader(rd)
		if err != nil || fmt.Sprint(d) != fmt.Sprint(modelDump(cur)) {
			add("reader-not-the-state-at-acquisition", fmt.Sprintf("reader obtained after batch %d shows %v (err %v), the abstract index is %v", age, d, err, modelDump(cur)))
		}
		fp, parts, err := fingerprint(rd, queries)
		if err != nil {
			add("reader-fails:current-root", err.Error())
			_ = rd.Close()
			return
		}
		held = append(held, &heldReader{rd: rd, kind: "current-root", age: age, fp: fp, parts: parts, state: d})
	}
	// the gated step
	var begin, end *mon.Hold
	switch cs.Gate {
	case "remove":
		begin = rg.Sched.HoldNth(1+int(cs.Seed%3), func(p mon.Point) bool { return p.Name == "remove.begin" && p.Kind == ".seg" })
		end = rg.Sched.HoldNth(1+int(cs.Seed%3), func(p mon.Point) bool { return p.Name == "remove.end" && p.Kind == ".seg" })
	case "merge-intro":
		begin = rg.Sched.HoldNth(int(cs.Seed%2), func(p mon.Point) bool { return p.Name == "ev:merge.intro.start" })
		end = rg.Sched.HoldNth(int(cs.Seed%2), func(p mon.Point) bool { return p.Name == "ev:merge.intro.end" })
	case "persist-swap":
		begin = rg.Sched.HoldNth(2+int(cs.Seed%3), func(p mon.Point) bool { return p.Role == "persister" && p.Name == "load.end" && p.Kind == ".seg" })
		end = rg.Sched.HoldNth(2+int(cs.Seed%3), func(p mon.Point) bool { return p.Role == "persister" && p.Name == "persist.begin" && p.Kind == ".snp" })
	}
	// Writer.Close landing in the middle of a merge (the shutdown paths of merger / persister release
	// snapshots and segments on their own): armed after the last batch, see below
	var closeHold *mon.Hold
	gateDone := false
	extraVer := 0
	tryGate := func(batchInFlight bool) {
		if begin == nil || gateDone {
			return
		}
		if batchInFlight && cs.Gate == "merge-intro" {
			return // batches never wait for the merger: handle this gate between two batches (see below)
		}
		if !begin.Reached(0) {
			return
		}
		gateDone = true
		res.GateReached = true
		recheck("before-" + cs.Gate)
		if !batchInFlight && cs.Gate == "merge-intro" {
			// the merge is built but not introduced: land a batch that deletes / updates documents (some of
			// them in the segments under merge), take a reader AFTER that batch and hold it across the introduction
			eb := &model.Batch{}
			named := map[string]bool{}
			for k := 0; k < 3; k++ {
				id := fmt.Sprintf("k%d", r.Intn(7))
				if named[id] {
					continue
				}
				named[id] = true
				if k%2 == 0 {
					eb.Ops = append(eb.Ops, model.Op{Kind: "delete", ID: id})
				} else {
					extraVer++
					eb.Ops = append(eb.Ops, model.Op{Kind: "update", ID: id, Doc: &model.Doc{ID: id, V: fmt.Sprintf("gate-%d", extraVer), Text: map[string]string{"t": "gate"}}})
				}
			}
			if err := w.Batch(eb.ToBluge()); err != nil {
				add("batch-error", err.Error())
			} else {
				cur = cur.Apply(eb)
				res.Batches = append(res.Batches, eb)
				for _, h := range held {
					if h.kind == "current-root" {
						h.kind = "superseded"
					}
				}
				acquire(-1)
				res.Steps["reader-taken-inside-merge-window"]++
			}
		}
		begin.Release()
		if end.Reached(3 * time.Second) {
			recheck("after-" + cs.Gate)
			end.Release()
		} else {
			end.Release()
		}
	}
	var openReaderHeld bool
	for bi, b := range batches {
		done := make(chan error, 1)
		go func() { done <- w.Batch(b.ToBluge()) }()
		// a safe batch may be waiting for the very goroutine we hold: serve the gate while waiting
	WAIT:
		for {
			select {
			case err := <-done:
				if err != nil {
					add("batch-error", err.Error())
				}
				break WAIT
			case <-time.After(2 * time.Millisecond):
				tryGate(true)
			}
		}
		cur = cur.Apply(b)
		for _, h := range held {
			if h.kind == "current-root" {
				h.kind = "superseded"
			}
		}
		tryGate(false)
		if bi == 3 || bi == 9 || bi == 16 {
			acquire(bi + 1)
		}
		if bi == 12 && !cs.Unsafe && !openReaderHeld {
			// an OpenReader reader on the directory the writer keeps cleaning. OpenReader lists the snapshot
			// files and then loads them; the writer's clean-up can remove every listed file in between (the
			// property speaks of a Reader once obtained, not of obtaining one), so a failed open is retried
			// and, if it keeps failing, only counted
			var rd *bluge.Reader
			var err error
			for attempt := 0; attempt < 6; attempt++ {
				rd, err = bluge.OpenReader(fsConfig(cs.Dir, fsOpts{Loader: cs.Loader, Merge: "none", SegVer: cs.SegVer}, nil))
				if err == nil {
					break
				}
				res.Steps["openreader-beside-writer-retried"]++
			}
			if err == nil {
				d, derr := dumpReader(rd)
				if derr != nil || fmt.Sprint(d) != fmt.Sprint(modelDump(cur)) {
					add("openreader-not-the-acknowledged-state", fmt.Sprintf("OpenReader after %d acknowledged batches shows %v (err %v), expected %v", bi+1, d, derr, modelDump(cur)))
				}
				if fp, parts, err := fingerprint(rd, queries); err == nil {
					held = append(held, &heldReader{rd: rd, kind: "openreader", age: bi + 1, fp: fp, parts: parts})
					openReaderHeld = true
				}
			} else {
				res.Steps["openreader-beside-writer-gave-up"]++
			}
		}
		if bi%4 == 3 {
			recheck("batch")
		}
	}
	if begin != nil {
		begin.Release()
		end.Release()
	}
	if cs.Gate == "close-in-merge" || cs.Gate == "close-in-persist" {
		// two more batches wake the merger; it is held where a file merge begins (batches never wait for
		// the merger), a reader of the current root is taken (the snapshot the merger works on, unless
		// another introduction slipped in), Close is started, and only then is the merger let go: it
		// finds the writer closing in the middle of its merge.
		// close-in-persist (unsafe batches only, a safe batch would wait for the held persister): the
		// persister is held after it loaded the segment file it has just written, i.e. right before it
		// hands the persist introduction over - released after Close began, it finds the writer closing
		closeHold = rg.Sched.HoldNth(0, func(p mon.Point) bool {
			if cs.Gate == "close-in-persist" {
				return p.Name == "load.end" && p.Kind == ".seg" && p.Role == "persister"
			}
			return p.Name == "merge.begin" && p.Role == "merger"
		})
		for k := 0; k < 2; k++ {
			extraVer++
			id := fmt.Sprintf("k%d", r.Intn(7))
			eb := &model.Batch{Ops: []model.Op{{Kind: "update", ID: id, Doc: &model.Doc{ID: id, V: fmt.Sprintf("late-%d", extraVer), Text: map[string]string{"t": "late"}}}}}
			if err := w.Batch(eb.ToBluge()); err != nil {
				add("batch-error", err.Error())
			} else {
				cur = cur.Apply(eb)
				res.Batches = append(res.Batches, eb)
			}
			if closeHold.Reached(0) {
				break
			}
		}
		for _, h := range held {
			if h.kind == "current-root" {
				h.kind = "superseded"
			}
		}
		if closeHold.Reached(3 * time.Second) {
			res.GateReached = true
			acquire(-2)
			recheck("before-close-in-merge")
			closed := make(chan struct{})
			var closeErr error
			go func() { closeErr = w.Close(); close(closed) }()
			time.Sleep(20 * time.Millisecond) // Close has signalled the background goroutines by now
			closeHold.Release()
			// (no wall-clock verdict: reported only when Close and all the writer's goroutines are blocked at
			// the same places in two dumps; a Close that is merely slow on a loaded machine is waited for)
			if dl := awaitWorkload(closed, 60*time.Second, "blugelabs/bluge.(*Writer).Close("); dl != "" {
				add("close-does-not-return", "Writer.Close started while a background step was held did not return after the step was let go: Close and the writer's goroutines are blocked, unchanged in two dumps three seconds apart:\n"+firstLines(dl, 60))
				return res, nil
			}
			if closeErr != nil {
				add("close-error", closeErr.Error())
			}
			if cs.Gate == "close-in-persist" {
				res.Steps["close-while-persist-in-flight"]++
			} else {
				res.Steps["close-while-merge-in-flight"]++
			}
		} else {
			closeHold.Release()
			waitQuietRig(w, true)
			recheck("quiescence")
			if err := w.Close(); err != nil {
				add("close-error", err.Error())
			}
		}
	} else {
		waitQuietRig(w, true)
		recheck("quiescence")
		if err := w.Close(); err != nil {
			add("close-error", err.Error())
		}
	}
	for _, h := range held {
		if h.kind != "openreader" {
			h.kind = "outliving-close"
		}
	}
	recheck("writer-close")
	for _, h := range held {
		_ = h.rd.Close()
	}
	for _, v := range rg.Violations() {
		add("segment-used-after-close", v)
	}
	return res, nil
}

func clipStr(s string, n int) string {
	if len(s) > n {
		return s[:n] + "..."
	}
	return s
}

func runC04(c *vk.Ctx) {
	c.Rule("in child processes: a merge-happy writer with seeded jitter runs a generated history (26 batches, documents of all field kinds); readers are acquired after batches 4, 10, 17 (their content must equal the abstract index at that moment) plus an OpenReader reader beside the live writer, and all are kept open; after every 4th batch, around one scripted background step (segment removal / merge introduction / persist swap: fingerprint, release the step, fingerprint), at quiescence and after Writer.Close - in one fifth of the runs a Close that is started while the merger is held at the beginning of a file merge, with a reader of the root it works on - every held reader is fingerprinted twice back to back: count, all documents with stored fields, document values through sorts and aggregations, every field's dictionary, 24 generated queries; " +
		"the plug-in wrapper reports any use of a segment after its file handle was closed. distinct non-trivial = distinct (reader kind, step kind) pairs where the step really lay between two fingerprints")
	c.Assume("a dead child is a fault of reader use", "the fingerprint is deterministic for an immutable view (scores included)")
	n := c.Pick(42, 1500)
	var cases []interface{}
	// (a merge introduction can only be gated in runs where a FILE merge happens: double weight)
	gates := []string{"remove", "merge-intro", "persist-swap", "none", "close-in-merge", "merge-intro", "close-in-persist"}
	for i := 0; i < n; i++ {
		cases = append(cases, c04Case{Seed: vk.SubSeed(c.Seed, fmt.Sprintf("c04-%d", i)), Dir: c.TempDir("c04-"), SegVer: 1 /* ice v2 shares one stored-field buffer per segment (known finding of C15): readers beside a running merge are judged on v1 */, Loader: []string{"mmap", "mmap", "nommap"}[i%3], Gate: gates[i%len(gates)], Unsafe: gates[i%len(gates)] == "close-in-persist" || i%4 == 3})
	}
	results := vk.RunChildren(c.Scratch(), "c04run", cases, vk.ChildOpts{PerChild: 2, Parallel: runtime.NumCPU(), CaseTimeout: 120 * time.Second, RlimitMB: 4096})
	for i, res := range results {
		cs := cases[i].(c04Case)
		c.Event("runs", 1)
		if res.Faulted() || res.Hung {
			if res.Hung {
				c.Inconclusive("child-watchdog")
			}
			c.Violate("reader-use-kills-process", fmt.Sprintf("case %+v: %s", cs, firstLines(res.Panic+res.Died, 25)), cs)
			continue
		}
		var out c04Result
		if res.Out == nil || json.Unmarshal(res.Out, &out) != nil {
			c.Violate("harness-child", fmt.Sprintf("no result: %s", res.Err), cs)
			continue
		}
		c.Eval(out.Comparisons)
		for _, f := range out.Findings {
			c.Violate(f.Key, fmt.Sprintf("%s (gate %s, seed %d)", f.What, cs.Gate, cs.Seed), map[string]interface{}{"case": cs, "batches": out.Batches})
		}
		for k, n := range out.Pairs {
			if n > 0 {
				c.Distinct(k)
			}
		}
		for k, n := range out.Steps {
			c.Event("step_"+k, n)
		}
		if out.GateReached {
			c.Event("gated_steps_realised_"+cs.Gate, 1)
		} else if cs.Gate != "none" {
			c.Event("gated_steps_not_realised", 1)
		}
	}
	c.Sample(cases[0])
	c.Require("step_writer-close", 10)
	c.Require("step_quiescence", 10)
	c.Require("gated_steps_realised_remove", 2)
	c.Require("gated_steps_realised_merge-intro", 1)
	c.Require("gated_steps_realised_persist-swap", 2)
	c.Require("step_close-while-merge-in-flight", 1)
}
