package checks

import (
	"bytes"
	"encoding/base64"
	"encoding/binary"
	"encoding/json"
	"fmt"
	"hash/crc32"
	"math/rand"
	"os"
	"path/filepath"
	"runtime"
	"sort"
	"strings"
	"time"

	"github.com/RoaringBitmap/roaring"
	"github.com/blugelabs/bluge"
	"github.com/blugelabs/bluge/index"

	"verif/harness/bx"
	"verif/harness/vk"
)

func init() {
	register(&Check{ID: "C12", Level: "exploration", Run: runC12})
	vk.RegisterChild("c12open", c12ChildOpen)
	vk.RegisterChild("c12decode", c12ChildDecode)
}

// ---------- round trip ----------

func c12RoundTrip(c *vk.Ctx, n int) {
	r := c.Rand("c12-rt")
	for i := 0; i < n; i++ {
		nseg := []int{0, 1, 2, 3, 10, 50, 300}[r.Intn(7)]
		if i%5 == 0 {
			nseg = r.Intn(40)
		}
		var segs []index.VerifSegment
		for s := 0; s < nseg; s++ {
			vs := index.VerifSegment{Type: []string{"ice", "ice", "ice", strings.Repeat("t", 3+r.Intn(40))}[r.Intn(4)], Version: []uint32{1, 2, 0, 0xffffffff, uint32(r.Uint32())}[r.Intn(5)]}
			switch r.Intn(5) {
			case 0:
				vs.ID = ^uint64(0)
			case 1:
				vs.ID = uint64(r.Intn(300))
			case 2:
				vs.ID = 1 << uint(r.Intn(64))
			default:
				vs.ID = r.Uint64()
			}
			switch r.Intn(5) {
			case 0:
				vs.Deleted = nil
			case 1:
				vs.Deleted = roaring.NewBitmap() // empty: reads back as "none"
			case 2:
				bm := roaring.NewBitmap()
				for k := 0; k < 1+r.Intn(20); k++ {
					bm.Add(uint32(r.Intn(1000)))
				}
				vs.Deleted = bm
			case 3:
				bm := roaring.NewBitmap()
				bm.AddRange(uint64(r.Intn(100)), uint64(100+r.Intn(100000)))
				vs.Deleted = bm
			default:
				bm := roaring.NewBitmap()
				for k := 0; k < r.Intn(3000); k++ {
					bm.Add(r.Uint32())
				}
				vs.Deleted = bm
			}
			segs = append(segs, vs)
		}
		c12RoundTripOne(c, segs, uint64(1+r.Intn(1000)), "gen")
	}
	c.Event("roundtrips", n)
}

// c12RoundTripOne writes one snapshot, reads it back and compares.
func c12RoundTripOne(c *vk.Ctx, segs []index.VerifSegment, epoch uint64, class string) {
	nseg := len(segs)
	snap := index.VerifNewSnapshot(epoch, segs)
	var buf bytes.Buffer
	nw, err := snap.WriteTo(&buf, nil)
	c.Eval(1)
	if err != nil || int(nw) != buf.Len() {
		c.Violate("roundtrip-write", fmt.Sprintf("WriteTo: n=%d len=%d err=%v", nw, buf.Len(), err), nil)
		return
	}
	c.EventMax("max_encoded_snapshot_bytes", int64(buf.Len()))
	if buf.Len() > 4096 {
		c.Event("roundtrips_crossing_4096_byte_buffer", 1)
	}
	enc := buf.Bytes()
	// the trailer is the CRC-32 of everything before it
	if len(enc) < 4 || crc32.ChecksumIEEE(enc[:len(enc)-4]) != binary.BigEndian.Uint32(enc[len(enc)-4:]) {
		c.Violate("roundtrip-crc-trailer", "the last 4 bytes are not the CRC-32 (IEEE) of the preceding bytes", nil)
	}
	back := index.VerifNewSnapshot(0, nil)
	var nr int64
	_, _, panicked := bx.Guarded(func() error {
		nr, err = back.ReadFrom(bytes.NewReader(enc[:len(enc)-4]))
		return nil
	})
	if panicked != "" {
		c.Violate("roundtrip-read-panics", fmt.Sprintf("ReadFrom panicked on an encoding produced by WriteTo (%d segments, %d bytes): %s", nseg, len(enc), firstLines(panicked, 10)),
			map[string]interface{}{"segments": nseg, "encoded_bytes": len(enc), "encoding_hex_prefix": fmt.Sprintf("%x", clip(enc, 200))})
		return
	}
	if err != nil {
		c.Violate("roundtrip-read", fmt.Sprintf("ReadFrom failed on an encoding produced by WriteTo (%d segments, %d bytes): %v", nseg, len(enc), err), nil)
		return
	}
	if int(nr) != len(enc)-4 {
		c.Violate("roundtrip-read-length", fmt.Sprintf("ReadFrom consumed %d of %d bytes", nr, len(enc)-4), nil)
	}
	got := back.VerifSegments()
	if len(got) != len(segs) {
		c.Violate("roundtrip-segments", fmt.Sprintf("%d segments written, %d read", len(segs), len(got)), nil)
		return
	}
	for k := range segs {
		w, g := segs[k], got[k]
		we := w.Deleted == nil || w.Deleted.IsEmpty()
		ge := g.Deleted == nil || g.Deleted.IsEmpty()
		same := w.ID == g.ID && w.Type == g.Type && w.Version == g.Version && we == ge
		if same && !we {
			same = w.Deleted.Equals(g.Deleted)
		}
		if !same {
			c.Violate("roundtrip-segment-differs", fmt.Sprintf("segment %d: wrote {id %d type %q ver %d deleted %v} read {id %d type %q ver %d deleted %v}", k, w.ID, w.Type, w.Version, w.Deleted, g.ID, g.Type, g.Version, g.Deleted), nil)
			break
		}
	}
	c.DistinctHash(vk.Hash64(fmt.Sprintf("rt|%s|%d|%d", class, nseg, buf.Len()/512)))
}

// c12RoundTripAlign: the same list of a few hundred small segments behind a first entry whose type string
// grows by one byte per case, so that every field of every kind of entry comes to lie at every offset of the
// decoder's 4096-byte read window (a field that straddles the window's end, or ends just before it).
func c12RoundTripAlign(c *vk.Ctx, step int) {
	bm := roaring.NewBitmap()
	bm.AddMany([]uint32{1, 5, 70000, 1 << 30})
	for pad := 0; pad < 4200; pad += step {
		segs := []index.VerifSegment{{Type: strings.Repeat("t", 3+pad), Version: 1, ID: 7}}
		for k := 0; k < 420; k++ {
			vs := index.VerifSegment{Type: "ice", Version: []uint32{1, 2, 0x01020304, 0xfffefdfc}[k%4], ID: uint64(k) + 8}
			switch k % 5 {
			case 1:
				vs.ID = 1<<63 + uint64(k)
			case 2:
				vs.Deleted = bm
			case 3:
				vs.Type = "icebox-" + strings.Repeat("x", k%17)
			}
			segs = append(segs, vs)
		}
		c12RoundTripOne(c, segs, uint64(pad+1), "align")
		c.Event("roundtrips_alignment_sweep", 1)
	}
}

// ---------- rejection of damaged files (children) ----------

type c12OpenCase struct {
	Dir    string // directory to open (already holding the damaged snapshot)
	Loader string // mmap | nommap
	Op     string // reader | writer
	Class  string
	Desc   string
}

type c12OpenResult struct {
	Err        string
	Epoch      uint64
	IDs        []string
	AllocBytes uint64
}

func c12Config(dir, loader string) bluge.Config {
	cfg := bluge.DefaultConfigWithDirectory(func() index.Directory {
		d := index.NewFileSystemDirectory(dir)
		if loader == "nommap" {
			d.SetLoadMMapFunc(index.LoadMMapNever)
		}
		return d
	})
	return bx.WithIC(bx.NoMerge(cfg), func(ic *index.Config) {
		ic.DeletionPolicyFunc = func() index.DeletionPolicy { return index.NewKeepNLatestDeletionPolicy(4) }
	})
}

func c12ChildOpen(in json.RawMessage) (interface{}, error) {
	var cs c12OpenCase
	if err := json.Unmarshal(in, &cs); err != nil {
		return nil, err
	}
	var ms0, ms1 runtime.MemStats
	runtime.ReadMemStats(&ms0)
	res := &c12OpenResult{}
	if cs.Op == "writer" {
		var done func()
		cs.Dir, done = privateCopy(cs.Dir) // an opening writer may clean up / rewrite: keep the prepared case as made
		defer done()
	}
	cfg := c12Config(cs.Dir, cs.Loader)
	var rd *bluge.Reader
	var w *bluge.Writer
	var err error
	if cs.Op == "writer" {
		w, err = bluge.OpenWriter(cfg)
		if err == nil {
			rd, err = w.Reader()
		}
	} else {
		rd, err = bluge.OpenReader(cfg)
	}
	runtime.ReadMemStats(&ms1)
	res.AllocBytes = ms1.TotalAlloc - ms0.TotalAlloc
	if err != nil {
		res.Err = err.Error()
		if w != nil {
			_ = w.Close()
		}
		return res, nil
	}
	res.Epoch = rd.VerifSnapshot().VerifEpoch()
	hits, _, err := bx.SafeCollect(rd, bluge.NewAllMatches(bluge.NewMatchAllQuery()), false)
	if err != nil {
		res.Err = "search: " + err.Error()
	}
	for _, h := range hits {
		res.IDs = append(res.IDs, h.ID)
	}
	sort.Strings(res.IDs)
	_ = rd.Close()
	if w != nil {
		_ = w.Close()
	}
	return res, nil
}

type c12DecodeCase struct {
	B64   string
	Class string
	Desc  string
}

type c12DecodeResult struct {
	Err        string
	Segments   int
	AllocBytes uint64
}

func c12ChildDecode(in json.RawMessage) (interface{}, error) {
	var cs c12DecodeCase
	if err := json.Unmarshal(in, &cs); err != nil {
		return nil, err
	}
	b, _ := base64.StdEncoding.DecodeString(cs.B64)
	var ms0, ms1 runtime.MemStats
	runtime.ReadMemStats(&ms0)
	snap := index.VerifNewSnapshot(0, nil)
	_, err := snap.ReadFrom(bytes.NewReader(b))
	runtime.ReadMemStats(&ms1)
	res := &c12DecodeResult{AllocBytes: ms1.TotalAlloc - ms0.TotalAlloc, Segments: len(snap.VerifSegments())}
	if err != nil {
		res.Err = err.Error()
	}
	return res, nil
}

func copyDir(src, dst string) error {
	if err := os.MkdirAll(dst, 0o755); err != nil {
		return err
	}
	ents, err := os.ReadDir(src)
	if err != nil {
		return err
	}
	for _, e := range ents {
		if e.IsDir() || e.Name() == "bluge.pid" {
			continue
		}
		b, err := os.ReadFile(filepath.Join(src, e.Name()))
		if err != nil {
			return err
		}
		if err := os.WriteFile(filepath.Join(dst, e.Name()), b, 0o600); err != nil {
			return err
		}
	}
	return nil
}

func uvarint(v uint64) []byte {
	b := make([]byte, binary.MaxVarintLen64)
	return b[:binary.PutUvarint(b, v)]
}

func withCRC(b []byte) []byte {
	out := append([]byte(nil), b...)
	var t [4]byte
	binary.BigEndian.PutUint32(t[:], crc32.ChecksumIEEE(b))
	return append(out, t[:]...)
}

type c12Damage struct {
	class, desc string
	data        []byte
}

func c12Damages(c *vk.Ctx, orig []byte, r *rand.Rand, full bool) []c12Damage {
	var out []c12Damage
	// every truncation length
	for l := 0; l < len(orig); l++ {
		out = append(out, c12Damage{"truncation", fmt.Sprintf("first %d of %d bytes", l, len(orig)), append([]byte(nil), orig[:l]...)})
	}
	// every single-bit flip of every byte
	for i := range orig {
		for bit := 0; bit < 8; bit++ {
			if !full && len(orig) > 200 && (i*8+bit)%3 != 0 {
				continue
			}
			d := append([]byte(nil), orig...)
			d[i] ^= 1 << uint(bit)
			out = append(out, c12Damage{"bitflip", fmt.Sprintf("byte %d bit %d", i, bit), d})
		}
	}
	// appended tails
	for _, n := range []int{1, 2, 3, 4, 5, 8, 64, 4096} {
		t := make([]byte, n)
		r.Read(t)
		out = append(out, c12Damage{"appended-tail", fmt.Sprintf("%d random bytes appended", n), append(append([]byte(nil), orig...), t...)})
		out = append(out, c12Damage{"appended-tail", fmt.Sprintf("%d zero bytes appended", n), append(append([]byte(nil), orig...), make([]byte, n)...)})
	}
	// an extension whose trailer is the correct CRC of the extended content
	body := orig[:len(orig)-4]
	for _, n := range []int{1, 7, 100} {
		pad := make([]byte, n)
		r.Read(pad)
		out = append(out, c12Damage{"extension-with-valid-crc", fmt.Sprintf("%d bytes inserted before a recomputed CRC", n), withCRC(append(append([]byte(nil), body...), pad...))})
	}
	// length-field attacks with a correct CRC, so that only the decoder can stop them
	mk := func(parts ...[]byte) []byte {
		var b []byte
		for _, p := range parts {
			b = append(b, p...)
		}
		return withCRC(b)
	}
	ver := uvarint(1)
	for _, big := range []uint64{1 << 20, 1 << 31, 1 << 34, 1 << 40, 1 << 62, 1 << 63, ^uint64(0)} {
		out = append(out, c12Damage{"length-attack", fmt.Sprintf("segment count %d, no segments", big), mk(ver, uvarint(big))})
		out = append(out, c12Damage{"length-attack", fmt.Sprintf("type string length %d", big), mk(ver, uvarint(1), uvarint(big), []byte("ice"))})
		out = append(out, c12Damage{"length-attack", fmt.Sprintf("deleted bitmap length %d", big), mk(ver, uvarint(1), uvarint(3), []byte("ice"), []byte{0, 0, 0, 1}, uvarint(7), uvarint(big), []byte{1, 2, 3})})
	}
	out = append(out, c12Damage{"format-version", "unsupported format version 2", mk(uvarint(2), body[1:])})
	out = append(out, c12Damage{"format-version", "format version 0", mk(uvarint(0), body[1:])})
	out = append(out, c12Damage{"bad-bitmap", "deleted bitmap bytes are garbage", mk(ver, uvarint(1), uvarint(3), []byte("ice"), []byte{0, 0, 0, 1}, uvarint(7), uvarint(5), []byte{9, 9, 9, 9, 9})})
	// random garbage, with and without a valid CRC
	for i := 0; i < 40; i++ {
		g := make([]byte, r.Intn(200))
		r.Read(g)
		out = append(out, c12Damage{"garbage", fmt.Sprintf("%d random bytes", len(g)), g})
		out = append(out, c12Damage{"garbage-valid-crc", fmt.Sprintf("%d random bytes + CRC", len(g)), withCRC(g)})
	}
	out = append(out, c12Damage{"zero-filled", "all bytes zero", make([]byte, len(orig))})
	out = append(out, c12Damage{"empty", "empty file", []byte{}})
	return out
}

func c12Rejection(c *vk.Ctx) {
	// an index with an intact older snapshot (content A) and a newer one (content B)
	base := c.TempDir("c12-base-")
	cfg := c12Config(base, "mmap")
	w, err := bluge.OpenWriter(cfg)
	if err != nil {
		c.Violate("harness-open", err.Error(), nil)
		return
	}
	batch := func(ids []string, del []string) {
		b := bluge.NewBatch()
		for _, id := range ids {
			b.Update(bluge.Identifier(id), bluge.NewDocument(id).AddField(bluge.NewTextField("t", "x "+id)))
		}
		for _, id := range del {
			b.Delete(bluge.Identifier(id))
		}
		if err := w.Batch(b); err != nil {
			c.Violate("harness-batch", err.Error(), nil)
		}
	}
	batch([]string{"a1", "a2", "a3", "a4"}, nil)
	batch([]string{"a5", "a6"}, []string{"a2"})
	batch([]string{"a7"}, []string{"a5"})
	_ = w.Close()
	wantA := []string{"a1", "a3", "a4", "a6", "a7"}
	w, err = bluge.OpenWriter(cfg)
	if err != nil {
		c.Violate("harness-reopen", err.Error(), nil)
		return
	}
	batch([]string{"b1", "b2"}, []string{"a1", "a7"})
	_ = w.Close()
	dir := index.NewFileSystemDirectory(base)
	snaps, _ := dir.List(index.ItemKindSnapshot)
	if len(snaps) < 2 {
		c.Violate("harness-snapshots", fmt.Sprintf("expected >= 2 retained snapshots, have %v", snaps), nil)
		return
	}
	newest, older := snaps[0], snaps[1]
	snapName := fmt.Sprintf("%012x.snp", newest)
	orig, err := os.ReadFile(filepath.Join(base, snapName))
	if err != nil {
		c.Violate("harness-read", err.Error(), nil)
		return
	}
	c.Set("snapshot_file_bytes", len(orig))
	c.Set("newest_epoch", newest)
	c.Set("older_intact_epoch", older)
	r := c.Rand("c12-damage")
	damages := c12Damages(c, orig, r, !c.Quick())
	// the undamaged directory first: which content does each epoch hold, and what does opening cost
	var cases []interface{}
	var meta []c12Damage
	scratch := c.TempDir("c12-cases-")
	target := "" // file the damage goes to ("" = the newest snapshot)
	add := func(d c12Damage, loader, op string) {
		cd := filepath.Join(scratch, fmt.Sprintf("case%06d", len(cases)))
		if err := copyDir(base, cd); err != nil {
			c.Violate("harness-copy", err.Error(), nil)
			return
		}
		if d.class != "intact" {
			name := snapName
			if target != "" {
				name = target
			}
			_ = os.WriteFile(filepath.Join(cd, name), d.data, 0o600)
		}
		cases = append(cases, c12OpenCase{Dir: cd, Loader: loader, Op: op, Class: d.class, Desc: d.desc})
		meta = append(meta, d)
	}
	for _, loader := range []string{"mmap", "nommap"} {
		for _, op := range []string{"reader", "writer"} {
			add(c12Damage{class: "intact", desc: "undamaged"}, loader, op)
		}
	}
	// with the newest snapshot removed: this is what falling back must look like
	for _, loader := range []string{"mmap", "nommap"} {
		cd := filepath.Join(scratch, fmt.Sprintf("case%06d", len(cases)))
		_ = copyDir(base, cd)
		_ = os.Remove(filepath.Join(cd, snapName))
		cases = append(cases, c12OpenCase{Dir: cd, Loader: loader, Op: "reader", Class: "fallback-reference", Desc: "newest snapshot absent"})
		meta = append(meta, c12Damage{class: "fallback-reference"})
	}
	nRef := len(cases)
	for i, d := range damages {
		for li, loader := range []string{"mmap", "nommap"} {
			op := "reader"
			if (i+li)%4 == 3 {
				op = "writer"
			}
			add(d, loader, op)
		}
	}
	// damage to a snapshot that is NOT the newest (the second newest ... the oldest retained one): the
	// intact newest snapshot must still be the one opened, by readers and writers alike
	for si, ep := range snaps[1:] {
		name := fmt.Sprintf("%012x.snp", ep)
		ob, err := os.ReadFile(filepath.Join(base, name))
		if err != nil {
			continue
		}
		ds := c12Damages(c, ob, r, false)
		want := c.Pick(16, 150)
		stride := len(ds)/want + 1
		for i := si % stride; i < len(ds); i += stride {
			d := ds[i]
			target = name
			d.class, d.desc = "older:"+d.class, fmt.Sprintf("snapshot %d of %v: %s", ep, snaps, d.desc)
			for li, loader := range []string{"mmap", "nommap"} {
				op := "writer"
				if (i/stride+li)%3 == 2 {
					op = "reader"
				}
				add(d, loader, op)
			}
		}
	}
	results := vk.RunChildren(c.Scratch(), "c12open", cases, vk.ChildOpts{PerChild: 150, Parallel: runtime.NumCPU(), CaseTimeout: 60 * time.Second, RlimitMB: 3072})
	var refAlloc uint64
	var intactIDs []string
	var fallbackIDs []string
	var fallbackEpoch uint64
	for i := 0; i < nRef; i++ {
		var res c12OpenResult
		if results[i].Out == nil || json.Unmarshal(results[i].Out, &res) != nil || res.Err != "" {
			c.Violate("harness-reference-open", fmt.Sprintf("reference case %d failed: %+v %s", i, results[i], res.Err), nil)
			return
		}
		if res.AllocBytes > refAlloc {
			refAlloc = res.AllocBytes
		}
		if meta[i].class == "fallback-reference" {
			fallbackIDs, fallbackEpoch = res.IDs, res.Epoch
		} else if res.Epoch == newest {
			intactIDs = res.IDs
		}
	}
	// the state to fall back to is what the same directory gives with the newest snapshot file absent;
	// independently of that it must be one of the two states the index went through
	wantB := []string{"a3", "a4", "a6", "b1", "b2"}
	if (fmt.Sprint(fallbackIDs) != fmt.Sprint(wantA) && fmt.Sprint(fallbackIDs) != fmt.Sprint(wantB)) || fallbackEpoch != older {
		c.Violate("harness-fallback-reference", fmt.Sprintf("fallback reference is epoch %d %v, expected epoch %d with %v or %v", fallbackEpoch, fallbackIDs, older, wantA, wantB), nil)
		return
	}
	wantA = fallbackIDs
	c.Set("alloc_bytes_opening_intact_index", refAlloc)
	for i := nRef; i < len(cases); i++ {
		cs := cases[i].(c12OpenCase)
		d := meta[i]
		res := results[i]
		c.Eval(1)
		c.Event("damaged_"+d.class, 1)
		c.Event("opens_"+cs.Loader+"_"+cs.Op, 1)
		wit := map[string]interface{}{"class": d.class, "damage": d.desc, "loader": cs.Loader, "op": cs.Op, "file_hex": fmt.Sprintf("%x", clip(d.data, 400)), "original_hex": fmt.Sprintf("%x", clip(orig, 400))}
		if res.Faulted() || res.Hung {
			key := "damaged-snapshot-kills-process:" + cs.Loader
			if res.Hung {
				c.Inconclusive("watchdog")
			}
			c.Violate(key, fmt.Sprintf("%s (%s) with the %s loader, Open%s: %s", d.class, d.desc, cs.Loader, strings.Title(cs.Op), firstLines(res.Panic+res.Died, 14)), wit)
			continue
		}
		var out c12OpenResult
		if res.Out == nil || json.Unmarshal(res.Out, &out) != nil {
			c.Violate("harness-child", fmt.Sprintf("no result: %+v", res), wit)
			continue
		}
		budget := refAlloc + 64*uint64(len(d.data)) + 1<<20
		if out.AllocBytes > budget {
			c.Violate("damaged-snapshot-allocation", fmt.Sprintf("%s (%s): opening allocated %d bytes, budget %d (intact open %d + 64 x %d + 1 MiB)", d.class, d.desc, out.AllocBytes, budget, refAlloc, len(d.data)), wit)
		}
		c.EventMax("max_alloc_bytes_on_damaged_open", int64(out.AllocBytes))
		if strings.HasPrefix(d.class, "older:") {
			if out.Err != "" || out.Epoch != newest || fmt.Sprint(out.IDs) != fmt.Sprint(intactIDs) {
				c.Violate("damaged-older-snapshot-disturbs-open:"+cs.Op, fmt.Sprintf("%s (%s), %s loader, Open%s: expected the intact newest epoch %d with %v, got epoch %d %v err=%q", d.class, d.desc, cs.Loader, strings.Title(cs.Op), newest, intactIDs, out.Epoch, out.IDs, out.Err), wit)
				continue
			}
			c.DistinctHash(vk.Hash64(d.class + d.desc + cs.Loader))
			c.Event("newest_opened_despite_damaged_older_snapshot", 1)
			continue
		}
		if out.Err != "" {
			c.Violate("damaged-snapshot-no-fallback", fmt.Sprintf("%s (%s), %s loader, Open%s: failed instead of falling back to the intact older snapshot: %s", d.class, d.desc, cs.Loader, strings.Title(cs.Op), out.Err), wit)
			continue
		}
		if out.Epoch == newest {
			c.Violate("damaged-snapshot-accepted:"+d.class, fmt.Sprintf("%s (%s), %s loader: the damaged file was accepted as epoch %d with content %v", d.class, d.desc, cs.Loader, out.Epoch, out.IDs), wit)
			continue
		}
		if out.Epoch != older || fmt.Sprint(out.IDs) != fmt.Sprint(wantA) {
			c.Violate("damaged-snapshot-wrong-state", fmt.Sprintf("%s (%s), %s loader: opened epoch %d with content %v, expected the older intact epoch %d with %v", d.class, d.desc, cs.Loader, out.Epoch, out.IDs, older, wantA), wit)
			continue
		}
		c.DistinctHash(vk.Hash64(d.class + d.desc + cs.Loader))
		c.Event("fell_back_to_older_snapshot", 1)
	}
	c.Sample(map[string]interface{}{"damage_classes": []string{"truncation", "bitflip", "appended-tail", "extension-with-valid-crc", "length-attack", "garbage"}, "example": cases[nRef]})
}

func clip(b []byte, n int) []byte {
	if len(b) > n {
		return b[:n]
	}
	return b
}

// decoder attacks straight on ReadFrom (children: a giant allocation must not take the harness down)
func c12Decoder(c *vk.Ctx) {
	r := c.Rand("c12-dec")
	// a valid body to mutate
	bm := roaring.NewBitmap()
	bm.AddMany([]uint32{1, 5, 9, 1000})
	snap := index.VerifNewSnapshot(3, []index.VerifSegment{{ID: 7, Type: "ice", Version: 1, Deleted: bm}, {ID: 9, Type: "ice", Version: 2}})
	var buf bytes.Buffer
	_, _ = snap.WriteTo(&buf, nil)
	body := buf.Bytes()[:buf.Len()-4]
	var cases []interface{}
	var descs []c12DecodeCase
	add := func(class, desc string, b []byte) {
		cs := c12DecodeCase{B64: base64.StdEncoding.EncodeToString(b), Class: class, Desc: desc}
		cases = append(cases, cs)
		descs = append(descs, cs)
	}
	for _, big := range []uint64{1 << 16, 1 << 24, 1 << 31, 1 << 32, 1 << 34, 1 << 36, 1 << 48, 1 << 62, 1 << 63, ^uint64(0)} {
		add("length-attack", fmt.Sprintf("segment count %d", big), append(uvarint(1), uvarint(big)...))
		add("length-attack", fmt.Sprintf("type string length %d", big), append(append(uvarint(1), uvarint(1)...), append(uvarint(big), 'i', 'c', 'e')...))
		b := append(append(uvarint(1), uvarint(1)...), uvarint(3)...)
		b = append(b, 'i', 'c', 'e', 0, 0, 0, 1)
		b = append(b, uvarint(7)...)
		b = append(b, uvarint(big)...)
		add("length-attack", fmt.Sprintf("deleted bitmap length %d", big), append(b, 1, 2, 3))
	}
	for l := 0; l <= len(body); l++ {
		add("truncation", fmt.Sprintf("first %d body bytes", l), body[:l])
	}
	n := c.Pick(300, 20000)
	for i := 0; i < n; i++ {
		m := append([]byte(nil), body...)
		for k := 0; k < 1+r.Intn(3); k++ {
			switch r.Intn(3) {
			case 0:
				m[r.Intn(len(m))] ^= 1 << uint(r.Intn(8))
			case 1:
				m[r.Intn(len(m))] = byte(r.Intn(256))
			default:
				p := r.Intn(len(m))
				m = append(m[:p], append([]byte{byte(r.Intn(256))}, m[p:]...)...)
			}
		}
		add("mutation", "random mutation of a valid body", m)
	}
	results := vk.RunChildren(c.Scratch(), "c12decode", cases, vk.ChildOpts{PerChild: 400, Parallel: runtime.NumCPU(), CaseTimeout: 60 * time.Second, RlimitMB: 3072})
	for i, res := range results {
		d := descs[i]
		raw, _ := base64.StdEncoding.DecodeString(d.B64)
		c.Eval(1)
		c.Event("decoder_"+d.Class, 1)
		wit := map[string]interface{}{"class": d.Class, "input": d.Desc, "bytes_hex": fmt.Sprintf("%x", clip(raw, 300))}
		if res.Faulted() || res.Hung {
			c.Violate("decoder-kills-process", fmt.Sprintf("ReadFrom on %s (%s): %s", d.Class, d.Desc, firstLines(res.Panic+res.Died, 10)), wit)
			continue
		}
		var out c12DecodeResult
		if res.Out == nil || json.Unmarshal(res.Out, &out) != nil {
			continue
		}
		if budget := uint64(64*len(raw) + 1<<20); out.AllocBytes > budget {
			c.Violate("decoder-allocation", fmt.Sprintf("ReadFrom on %s (%s, %d bytes) allocated %d bytes (budget %d)", d.Class, d.Desc, len(raw), out.AllocBytes, budget), wit)
			continue
		}
		if d.Class == "length-attack" && out.Err == "" {
			c.Violate("decoder-accepts-length-attack", fmt.Sprintf("ReadFrom accepted %s as %d segments", d.Desc, out.Segments), wit)
		}
		if out.Err != "" {
			c.Event("decoder_rejected", 1)
			c.DistinctHash(vk.Hash64("dec|" + d.Class + "|" + out.Err))
		}
	}
}

func runC12(c *vk.Ctx) {
	c.Rule("round trip: generated snapshots (0..300 segments, ids to 2^64-1, empty to large deleted bitmaps, encodings crossing 4096 bytes; an alignment sweep that moves a list of 420 entries byte by byte through the decoder's 4096-byte read window) through WriteTo/ReadFrom; " +
		"rejection: a directory with an intact older snapshot and a newer one, the newer file replaced by every truncation, every single-bit flip, appended tails, extensions with a recomputed CRC, length-field attacks with a valid CRC, garbage; opened in child processes through OpenReader and OpenWriter with the mmap and the non-mmap loader; " +
		"decoder: length attacks, truncations and random mutations straight into ReadFrom in children with an address-space limit; distinct non-trivial = distinct damaged files that were rejected and fell back, plus distinct (class, decoder error)")
	c.Assume("allocation is measured as runtime.MemStats.TotalAlloc delta in the child, budget = cost of opening the intact index + 64 x file length + 1 MiB; RLIMIT_AS 3 GiB turns giant allocations into a dead child",
		"a damaged newer snapshot must lead to the older intact one (content and epoch are both checked)",
		"a sample of the same damages applied to each retained snapshot that is NOT the newest must leave OpenReader and OpenWriter on the intact newest one")
	c12RoundTrip(c, c.Pick(1500, 60000))
	c12RoundTripAlign(c, c.Pick(5, 1))
	c12RoundTripDir(c, c.Pick(60, 1500))
	c12Decoder(c)
	c12Rejection(c)
	if !c.Quick() {
		// coverage-guided fuzzing of the decoder and of loading through both loaders (count based)
		runGoFuzz(c, "FuzzSnapshotDecode", 1500000)
		runGoFuzz(c, "FuzzSnapshotLoad", 30000)
	}
	c.Require("roundtrips", 500)
	c.Require("roundtrips_alignment_sweep", 500)
	c.Require("roundtrips_crossing_4096_byte_buffer", 10)
	c.Require("damaged_truncation", 20)
	c.Require("damaged_bitflip", 100)
	c.Require("newest_opened_despite_damaged_older_snapshot", 20)
}
