package checks

import (
	"encoding/json"
	"fmt"
	"html"
	"math/rand"
	"runtime"
	"sort"
	"strings"
	"sync"
	"time"
	"unicode/utf8"

	"github.com/blugelabs/bluge"
	"github.com/blugelabs/bluge/analysis"
	"github.com/blugelabs/bluge/analysis/analyzer"
	"github.com/blugelabs/bluge/analysis/lang/cjk"
	"github.com/blugelabs/bluge/search"
	"github.com/blugelabs/bluge/search/highlight"

	"verif/harness/bx"
	"verif/harness/vk"
)

func init() {
	register(&Check{ID: "C20", Level: "exploration", Run: runC20})
	vk.RegisterChild("c20adv", c20ChildAdversarial)
}

var c20Words = []string{"alpha", "beta", "gamma", "δέλτα", "日本", "é", "x", "longerwordhere", "z<&>z", "\"q\"", "naïve", "ab", "b", "�", "a�b", "語語", "日本語", "本"}

type c20Case struct {
	Text      string
	Analyzer  string
	Query     string
	FragSize  int
	Num       int
	Formatter string
	Fragments []string `json:",omitempty"`
	Spans     [][2]int `json:",omitempty"`
}

type span struct{ s, e int }

// parseFragment strips separators and markup, returning the plain text and the marked spans in plain coordinates.
func parseFragment(f, formatter, sep string) (plain string, marks []span, err error) {
	g := strings.TrimPrefix(f, sep)
	g = strings.TrimSuffix(g, sep)
	open, close := "<mark>", "</mark>"
	unesc := html.UnescapeString
	if formatter == "ansi" {
		open, close = highlight.BgYellow, highlight.Reset
		unesc = func(s string) string { return s }
	}
	rest := g
	for {
		i := strings.Index(rest, open)
		if i < 0 {
			if strings.Contains(rest, close) {
				return "", nil, fmt.Errorf("closing mark without opening mark")
			}
			plain += unesc(rest)
			return plain, marks, nil
		}
		plain += unesc(rest[:i])
		rest = rest[i+len(open):]
		j := strings.Index(rest, close)
		if j < 0 {
			return "", nil, fmt.Errorf("unbalanced markup")
		}
		mt := unesc(rest[:j])
		marks = append(marks, span{len(plain), len(plain) + len(mt)})
		plain += mt
		rest = rest[j+len(close):]
	}
}

// markOK: [a,b) is exactly one occurrence or the union of a run of overlapping occurrences.
func markOK(a, b int, occ []span) bool {
	for i, o := range occ {
		if o.s != a {
			continue
		}
		if o.e == b {
			return true
		}
		// grow a run from this occurrence
		end := o.e
		grew := true
		used := map[int]bool{i: true}
		for grew {
			grew = false
			for k, p := range occ {
				if used[k] {
					continue
				}
				if p.s >= a && p.s < end { // overlaps the run so far
					used[k] = true
					if p.e > end {
						end = p.e
						grew = true
					}
					if end == b {
						return true
					}
				}
			}
		}
		if end == b {
			return true
		}
	}
	return false
}

func c20Analyzer(name string) *analysis.Analyzer {
	switch name {
	case "cjk":
		return cjk.Analyzer()
	case "simple":
		return analyzer.NewSimpleAnalyzer()
	case "web":
		return analyzer.NewWebAnalyzer()
	}
	return analyzer.NewStandardAnalyzer()
}

func c20Check(c *vk.Ctx, cs *c20Case) {
	an := c20Analyzer(cs.Analyzer)
	cfg := bx.NoMerge(bluge.InMemoryOnlyConfig())
	w, err := bluge.OpenWriter(cfg)
	if err != nil {
		return
	}
	defer w.Close()
	d := bluge.NewDocument("d").AddField(bluge.NewTextField("t", cs.Text).WithAnalyzer(an).StoreValue().HighlightMatches())
	if err := w.Update(d.ID(), d); err != nil {
		c.Violate("harness-index", err.Error(), cs)
		return
	}
	rd, _ := w.Reader()
	defer rd.Close()
	q := bluge.NewMatchQuery(cs.Query).SetField("t").SetAnalyzer(an)
	hits, _, err := bx.SafeCollect(rd, bluge.NewTopNSearch(1, q).IncludeLocations(), true)
	c.Eval(1)
	if err != nil {
		c.Violate("search-error", err.Error(), cs)
		return
	}
	if len(hits) == 0 {
		c.Event("texts_without_match", 1)
		return
	}
	m := hits[0].Match
	tlm := m.Locations["t"]
	stored := cs.Text
	if v := hits[0].Stored["t"]; len(v) > 0 {
		stored = v[0]
	}
	if stored != cs.Text {
		c.Violate("stored-text-differs", fmt.Sprintf("stored %q vs indexed %q", stored, cs.Text), cs)
		return
	}
	var occ []span
	for _, locs := range tlm {
		for _, l := range locs {
			occ = append(occ, span{l.Start, l.End})
		}
	}
	sort.Slice(occ, func(i, j int) bool { return occ[i].s < occ[j].s || (occ[i].s == occ[j].s && occ[i].e < occ[j].e) })
	for _, o := range occ {
		cs.Spans = append(cs.Spans, [2]int{o.s, o.e})
	}
	overlapping := false
	for i := 1; i < len(occ); i++ {
		if occ[i].s < occ[i-1].e {
			overlapping = true
		}
	}
	if overlapping {
		c.Event("location_sets_with_overlapping_occurrences", 1)
	}
	var formatter highlight.FragmentFormatter = highlight.NewHTMLFragmentFormatter()
	if cs.Formatter == "ansi" {
		formatter = highlight.NewANSIFragmentFormatter()
	}
	sep := highlight.DefaultSeparator
	hl := highlight.NewSimpleHighlighter(highlight.NewSimpleFragmenterSized(cs.FragSize), formatter, sep)
	var frags []string
	_, _, panicked := bx.Guarded(func() error {
		frags = hl.BestFragments(tlm, []byte(stored), cs.Num)
		return nil
	})
	if panicked != "" {
		c.Violate("highlight-panic", fmt.Sprintf("BestFragments panicked on text %q fragment size %d: %s", cs.Text, cs.FragSize, firstLines(panicked, 10)), cs)
		return
	}
	cs.Fragments = frags
	if len(frags) > cs.Num {
		c.Violate("more-fragments-than-asked", fmt.Sprintf("asked for %d, got %d", cs.Num, len(frags)), cs)
	}
	hasFFFD := strings.ContainsRune(cs.Text, utf8.RuneError)
	keySuffix := ""
	if hasFFFD {
		keySuffix = ":text-contains-U+FFFD"
	}
	type placed struct{ offs []int; n int }
	var places []placed
	for fi, f := range frags {
		plain, marks, err := parseFragment(f, cs.Formatter, sep)
		if err != nil {
			c.Violate("fragment-markup-malformed", fmt.Sprintf("fragment %q: %v", f, err), cs)
			continue
		}
		var offs []int
		markedOK := false
		for off := 0; off+len(plain) <= len(stored); off++ {
			if stored[off:off+len(plain)] != plain {
				continue
			}
			offs = append(offs, off)
			good := true
			for _, mk := range marks {
				if !markOK(mk.s+off, mk.e+off, occ) {
					good = false
				}
			}
			if good {
				markedOK = true
			}
		}
		if len(offs) == 0 {
			c.Violate("fragment-not-a-slice-of-the-text", fmt.Sprintf("text %q: fragment %q (plain %q) is not a contiguous piece of the text", cs.Text, f, plain), cs)
			continue
		}
		if !markedOK {
			c.Violate("marked-span-is-not-a-match", fmt.Sprintf("text %q occurrences %v: fragment %q marks something that is neither one occurrence nor a run of overlapping ones", cs.Text, cs.Spans, f), cs)
		}
		places = append(places, placed{offs, len(plain)})
		if fi == 0 && len(marks) == 0 && len(occ) > 0 {
			fits := false
			for _, o := range occ {
				if o.s >= 0 && o.e <= len(stored) && utf8.RuneCountInString(stored[o.s:o.e]) <= cs.FragSize {
					fits = true
				}
			}
			if fits {
				// class: the fragment is smaller than a run of overlapping occurrences (the formatter marks
				// merged runs only, and a run that does not fit into the fragment is not marked at all)
				if overlapping && keySuffix == "" {
					end, start, longest := -1, 0, 0
					for _, o := range occ {
						if o.s >= end {
							start = o.s
						}
						if o.e > end {
							end = o.e
						}
						if o.s >= 0 && end <= len(stored) && start <= end {
							if n := utf8.RuneCountInString(stored[start:end]); n > longest {
								longest = n
							}
						}
					}
					if longest > cs.FragSize {
						keySuffix = ":overlapping-run-longer-than-fragment"
					}
				}
				c.Violate("best-fragment-without-match"+keySuffix, fmt.Sprintf("text %q fragment size %d: the best fragment %q contains no match although one fits", cs.Text, cs.FragSize, f), cs)
			}
		}
		if len(marks) > 0 {
			c.Event("fragments_with_marks", 1)
		}
	}
	// fragments do not overlap: some assignment of positions must be pairwise disjoint
	if len(places) >= 2 {
		var rec func(i int, chosen []span) bool
		rec = func(i int, chosen []span) bool {
			if i == len(places) {
				return true
			}
			for _, off := range places[i].offs {
				s := span{off, off + places[i].n}
				ok := true
				for _, o := range chosen {
					if s.s < o.e && o.s < s.e && s.e > s.s && o.e > o.s {
						ok = false
					}
				}
				if ok && rec(i+1, append(chosen, s)) {
					return true
				}
			}
			return false
		}
		if !rec(0, nil) {
			c.Violate("fragments-overlap", fmt.Sprintf("text %q: fragments %q cannot be placed without overlapping", cs.Text, frags), cs)
		} else {
			c.Event("multi_fragment_results", 1)
		}
	}
	if cs.Num > 0 && len(frags) == 0 && len(occ) > 0 {
		c.Violate("no-fragment-although-matches-exist"+keySuffix, fmt.Sprintf("text %q fragment size %d num %d: no fragment returned, occurrences %v", cs.Text, cs.FragSize, cs.Num, cs.Spans), cs)
	}
	if len(frags) > 0 {
		c.DistinctHash(vk.Hash64(fmt.Sprintf("%s|%d|%d|%s|%v|%d", cs.Analyzer, bucket(cs.FragSize), cs.Num, cs.Formatter, overlapping, bucket(utf8.RuneCountInString(cs.Text)))))
	}
}

// adversarial location maps: only "no panic" is judged (in a child)
type c20AdvCase struct {
	Text     []byte
	Locs     map[string][][3]int // term -> (pos,start,end)
	FragSize int
	Num      int
	ANSI     bool
}

func c20ChildAdversarial(in json.RawMessage) (interface{}, error) {
	var cs c20AdvCase
	if err := json.Unmarshal(in, &cs); err != nil {
		return nil, err
	}
	tlm := search.TermLocationMap{}
	for t, ls := range cs.Locs {
		for _, l := range ls {
			tlm[t] = append(tlm[t], &search.Location{Pos: l[0], Start: l[1], End: l[2]})
		}
	}
	var formatter highlight.FragmentFormatter = highlight.NewHTMLFragmentFormatter()
	if cs.ANSI {
		formatter = highlight.NewANSIFragmentFormatter()
	}
	hl := highlight.NewSimpleHighlighter(highlight.NewSimpleFragmenterSized(cs.FragSize), formatter, highlight.DefaultSeparator)
	frags := hl.BestFragments(tlm, cs.Text, cs.Num)
	return len(frags), nil
}

func c20GenText(r *rand.Rand, cjkOnly bool) string {
	n := 1 + r.Intn(60)
	if r.Intn(8) == 0 {
		n = 60 + r.Intn(200)
	}
	var ws []string
	for i := 0; i < n; i++ {
		if cjkOnly {
			ws = append(ws, []string{"日本語", "日本", "語語語", "本日", "x", "東京都", "京都"}[r.Intn(7)])
		} else {
			ws = append(ws, c20Words[r.Intn(len(c20Words))])
		}
	}
	seps := []string{" ", " ", " ", ", ", "  ", "\n"}
	var sb strings.Builder
	for i, w := range ws {
		if i > 0 {
			if cjkOnly && r.Intn(2) == 0 {
				// no separator: long ideographic runs give overlapping bigrams
			} else {
				sb.WriteString(seps[r.Intn(len(seps))])
			}
		}
		sb.WriteString(w)
	}
	return sb.String()
}

func runC20(c *vk.Ctx) {
	c.Rule("generated valid UTF-8 texts (multi-byte words, HTML-special characters, U+FFFD, 1..260 words, matches at both ends) indexed with standard / simple / web / cjk analyzers (cjk gives overlapping bigram occurrences), searched with IncludeLocations, highlighted with fragment sizes 1..300, num 0..5, HTML and ANSI formatters; each fragment is re-parsed: de-marked unescaped text must be a contiguous slice, every mark one occurrence or a run of overlapping ones, fragments placeable without overlap, count <= num, best fragment holds a match when one fits; " +
		"adversarial location maps (negative, out of range, inverted, unsorted, overlapping) and invalid UTF-8 texts in child processes for the no-panic clause. distinct non-trivial = distinct (analyzer, fragment size class, num, formatter, overlapping?, text length class) with at least one fragment")
	c.Assume("a match 'fits' when its rune length is at most the fragment size",
		"when the same plain text occurs several times in the original, any position that satisfies the mark rule is accepted")
	n := c.Pick(3000, 250000)
	workers := runtime.NumCPU()
	var wg sync.WaitGroup
	for w := 0; w < workers; w++ {
		wg.Add(1)
		go func(w int) {
			defer wg.Done()
			r := c.Rand(fmt.Sprintf("c20-%d", w))
			for i := w; i < n; i += workers {
				cs := &c20Case{FragSize: []int{1, 2, 3, 5, 10, 30, 100, 200, 300}[r.Intn(9)], Num: r.Intn(6), Formatter: []string{"html", "ansi"}[r.Intn(2)]}
				if i%4 == 3 {
					cs.Analyzer = "cjk"
					cs.Text = c20GenText(r, true)
					cs.Query = []string{"日本", "日本語", "語語", "京都 日本", "東京都"}[r.Intn(5)]
				} else {
					cs.Analyzer = []string{"standard", "simple", "web"}[r.Intn(3)]
					cs.Text = c20GenText(r, false)
					cs.Query = c20Words[r.Intn(12)] + " " + c20Words[r.Intn(4)]
				}
				c20Check(c, cs)
				if i < 3 {
					c.Sample(cs)
				}
			}
		}(w)
	}
	wg.Wait()
	// adversarial maps
	r := c.Rand("c20-adv")
	var cases []interface{}
	na := c.Pick(1500, 60000)
	for i := 0; i < na; i++ {
		var text []byte
		switch r.Intn(4) {
		case 0:
			text = make([]byte, r.Intn(40))
			r.Read(text)
		case 1:
			text = []byte(c20GenText(r, false))
			if len(text) > 2 {
				text = text[:len(text)-1-r.Intn(2)] // may cut a rune
			}
		default:
			text = []byte(c20GenText(r, r.Intn(2) == 0))
		}
		locs := map[string][][3]int{}
		for k := 0; k < r.Intn(6); k++ {
			term := fmt.Sprintf("t%d", r.Intn(3))
			pick := func() int {
				switch r.Intn(6) {
				case 0:
					return -1 - r.Intn(5)
				case 1:
					return len(text) + r.Intn(5)
				case 2:
					return len(text)
				case 3:
					return 0
				}
				if len(text) == 0 {
					return 0
				}
				return r.Intn(len(text))
			}
			locs[term] = append(locs[term], [3]int{r.Intn(5), pick(), pick()})
		}
		cases = append(cases, c20AdvCase{Text: text, Locs: locs, FragSize: []int{0, 1, 3, 10, 200}[r.Intn(5)], Num: r.Intn(4), ANSI: r.Intn(2) == 0})
	}
	results := vk.RunChildren(c.Scratch(), "c20adv", cases, vk.ChildOpts{PerChild: 500, Parallel: runtime.NumCPU(), CaseTimeout: 60 * time.Second, RlimitMB: 3072})
	for i, res := range results {
		c.Eval(1)
		c.Event("adversarial_location_maps", 1)
		if res.Faulted() || res.Hung {
			cs := cases[i].(c20AdvCase)
			cls := "out-of-range-locations"
			inRange := true
			for _, ls := range cs.Locs {
				for _, l := range ls {
					if l[1] < 0 || l[2] < 0 || l[1] > len(cs.Text) || l[2] > len(cs.Text) || l[1] > l[2] {
						inRange = false
					}
				}
			}
			if inRange {
				cls = "in-range-locations"
			}
			c.Violate("highlight-panic:"+cls, fmt.Sprintf("BestFragments on %d-byte text with locations %v, fragment size %d: %s", len(cs.Text), cs.Locs, cs.FragSize, firstLines(res.Panic+res.Died, 8)), cs)
		}
	}
	if !c.Quick() {
		runGoFuzz(c, "FuzzHighlight", 3000000) // coverage-guided no-panic fuzzing of text + location maps
	}
	c.Require("fragments_with_marks", 300)
	c.Require("multi_fragment_results", 100)
	c.Require("location_sets_with_overlapping_occurrences", 20)
	c.Require("adversarial_location_maps", 500)
}
