package checks

import (
	"bytes"
	"context"
	"fmt"
	"math"
	"runtime"
	"sort"
	"sync"
	"time"

	"github.com/blugelabs/bluge"
	"github.com/blugelabs/bluge/numeric"
	"github.com/blugelabs/bluge/search/searcher"

	"verif/harness/bx"
	"verif/harness/vk"
)

func init() {
	register(&Check{ID: "C10", Level: "exploration", Run: runC10})
}

// int64 boundary set of the sortable domain.
func c10IntBoundary(level int) []int64 {
	set := map[int64]struct{}{}
	add := func(v int64) { set[v] = struct{}{} }
	nb := []int64{-1, 0, 1}
	if level >= 2 {
		nb = []int64{-2, -1, 0, 1, 2}
	}
	for _, v := range []int64{0, math.MinInt64, math.MaxInt64, math.MinInt64 + 1, math.MaxInt64 - 1} {
		add(v)
	}
	// powers of two (covers every 4-bit precision step boundary and every 7-bit byte boundary)
	for k := uint(0); k < 63; k++ {
		if level < 2 && k%4 != 0 && k%7 != 0 && k > 8 {
			continue
		}
		for _, d := range nb {
			add(int64(1)<<k + d)
			add(-(int64(1) << k) + d)
		}
	}
	// multiples of 16^j and 128^j near small counts
	for j := uint(1); j < 16; j++ {
		for _, m := range []int64{3, 15, 16, 17} {
			if j*4 < 58 {
				for _, d := range nb {
					add(m<<(4*j) + d)
					add(-(m << (4 * j)) + d)
				}
			}
		}
	}
	for j := uint(1); j < 9; j++ {
		for _, m := range []int64{1, 2, 127} {
			if j*7 < 56 {
				add(m << (7 * j))
				add(m<<(7*j) - 1)
				add(-(m << (7 * j)))
			}
		}
	}
	// float structure boundaries expressed in the int domain
	for _, f := range c10FloatSeeds() {
		i := numeric.Float64ToInt64(f)
		add(i)
		if level >= 2 {
			add(i + 1)
			add(i - 1)
		}
	}
	// the bit patterns of +Inf / -Inf as int64 (dates can hold them)
	add(numeric.Float64ToInt64(math.Inf(1)))
	add(numeric.Float64ToInt64(math.Inf(-1)))
	out := make([]int64, 0, len(set))
	for v := range set {
		out = append(out, v)
	}
	sort.Slice(out, func(i, j int) bool { return out[i] < out[j] })
	return out
}

func c10FloatSeeds() []float64 {
	var out []float64
	add := func(f float64) {
		if !math.IsNaN(f) && !math.IsInf(f, 0) {
			out = append(out, f)
		}
	}
	base := []float64{0, math.Copysign(0, -1), 1, -1, 0.5, -0.5, 2, -2, 3, 10, 15, 16, 17, 255, 256, 1e15, -1e15,
		math.SmallestNonzeroFloat64, -math.SmallestNonzeroFloat64, math.MaxFloat64, -math.MaxFloat64,
		2.2250738585072014e-308, -2.2250738585072014e-308, 1e-320, 0.1, -0.1, 1e300, 4503599627370496, 9007199254740992}
	for _, f := range base {
		add(f)
		add(math.Nextafter(f, math.Inf(1)))
		add(math.Nextafter(f, math.Inf(-1)))
	}
	return out
}

func sortableU(v int64) uint64 { return uint64(v) ^ (1 << 63) }

func cmpU(a, b uint64) int {
	if a < b {
		return -1
	}
	if a > b {
		return 1
	}
	return 0
}

// part A: round trip and order embedding at every shift
func c10Encoding(c *vk.Ctx, B []int64) {
	shifts := make([]uint, 0, 64)
	for s := uint(0); s < 64; s++ {
		shifts = append(shifts, s)
	}
	enc := make([][][]byte, len(shifts))
	for si, s := range shifts {
		enc[si] = make([][]byte, len(B))
		for i, v := range B {
			p, err := numeric.NewPrefixCodedInt64(v, s)
			if err != nil {
				c.Violate("encode-error", fmt.Sprintf("NewPrefixCodedInt64(%d,%d): %v", v, s, err), nil)
				return
			}
			enc[si][i] = p
			c.Eval(1)
			if ok, sh := numeric.ValidPrefixCodedTermBytes(p); !ok || uint(sh) != s {
				c.Violate("encode-invalid-term", fmt.Sprintf("encoding of %d at shift %d is not a valid prefix coded term", v, s), nil)
			}
			if s < 63 { // Shift() rejects 63 by construction of the decoder; decode what it accepts
				back, err := numeric.PrefixCoded(p).Int64()
				want := int64((sortableU(v)>>s)<<s ^ (1 << 63))
				if err != nil || back != want {
					c.Violate("encode-roundtrip", fmt.Sprintf("value %d shift %d decodes to %d (err %v), want %d", v, s, back, err, want), nil)
				}
			}
		}
	}
	var wg sync.WaitGroup
	for si := range shifts {
		wg.Add(1)
		go func(si int) {
			defer wg.Done()
			s := shifts[si]
			n := 0
			for i, a := range B {
				for j, b := range B {
					got := bytes.Compare(enc[si][i], enc[si][j])
					want := cmpU(sortableU(a)>>s, sortableU(b)>>s)
					n++
					if got != want {
						c.Violate("order-embedding", fmt.Sprintf("shift %d: compare(enc(%d), enc(%d)) = %d, truncated values compare %d", s, a, b, got, want),
							map[string]interface{}{"a": a, "b": b, "shift": s})
					}
				}
			}
			c.Eval(n)
			c.Event("order_pairs_checked", n)
		}(si)
	}
	wg.Wait()
	// float <-> int64
	fs := c10FloatSeeds()
	for _, v := range B {
		f := numeric.Int64ToFloat64(v)
		if !math.IsNaN(f) {
			fs = append(fs, f)
		}
		if numeric.Float64ToInt64(f) != v {
			c.Violate("float-roundtrip", fmt.Sprintf("int64 %d -> float -> int64 gives %d", v, numeric.Float64ToInt64(f)), nil)
		}
	}
	for _, a := range fs {
		if math.Float64bits(numeric.Int64ToFloat64(numeric.Float64ToInt64(a))) != math.Float64bits(a) {
			c.Violate("float-roundtrip", fmt.Sprintf("float %v does not round-trip", a), nil)
		}
		if math.IsInf(a, 0) {
			continue
		}
		for _, b := range fs {
			if math.IsInf(b, 0) {
				continue
			}
			less := a < b || (a == 0 && b == 0 && math.Signbit(a) && !math.Signbit(b))
			if less != (numeric.Float64ToInt64(a) < numeric.Float64ToInt64(b)) {
				c.Violate("float-order", fmt.Sprintf("%v < %v is %v but sortable ints compare otherwise", a, b, less), nil)
			}
			c.Eval(1)
		}
	}
	c.Event("float_pairs_checked", len(fs)*len(fs))
	c.Event("boundary_values", len(B))
}

// part B: the decomposition (through the hook) matches v iff v in [lo,hi]
func c10Decomposition(c *vk.Ctx, B []int64) {
	const step = 4
	nShift := 16
	tok := make([][][]byte, len(B))
	for i, v := range B {
		tok[i] = make([][]byte, nShift)
		for k := 0; k < nShift; k++ {
			tok[i][k] = numeric.MustNewPrefixCodedInt64(v, uint(k*step))
		}
	}
	workers := runtime.NumCPU()
	var wg sync.WaitGroup
	for w := 0; w < workers; w++ {
		wg.Add(1)
		go func(w int) {
			defer wg.Done()
			evals, multi := 0, 0
			for li := w; li < len(B); li += workers {
				lo := B[li]
				for hi_i := 0; hi_i < len(B); hi_i++ {
					hi := B[hi_i]
					if hi < lo && (li+hi_i)%7 != 0 { // a sample of inverted intervals
						continue
					}
					trs := searcher.VerifSplitInt64Range(lo, hi, step)
					byShift := map[byte][]searcher.VerifTermRange{}
					levels := map[byte]bool{}
					for _, tr := range trs {
						if len(tr.Start) == 0 || len(tr.Start) != len(tr.End) || tr.Start[0] != tr.End[0] {
							c.Violate("decomposition-malformed-range", fmt.Sprintf("[%d,%d]: range %x..%x", lo, hi, tr.Start, tr.End), nil)
							continue
						}
						byShift[tr.Start[0]] = append(byShift[tr.Start[0]], tr)
						levels[tr.Start[0]] = true
					}
					if len(levels) >= 2 {
						multi++
						c.DistinctHash(uint64(li)<<32 | uint64(hi_i))
					}
					for vi, v := range B {
						match := false
						for k := 0; k < nShift && !match; k++ {
							t := tok[vi][k]
							for _, tr := range byShift[t[0]] {
								if bytes.Compare(tr.Start, t) <= 0 && bytes.Compare(t, tr.End) <= 0 {
									match = true
									break
								}
							}
						}
						want := lo <= v && v <= hi
						evals++
						if match != want {
							c.Violate("decomposition-inexact", fmt.Sprintf("interval [%d,%d], value %d: in interval=%v, matched by prefix terms=%v", lo, hi, v, want, match),
								map[string]interface{}{"lo": lo, "hi": hi, "value": v})
						}
					}
				}
			}
			c.Eval(evals)
			c.Event("decomposition_value_checks", evals)
			c.Event("intervals_needing_2plus_precision_levels", multi)
		}(w)
	}
	wg.Wait()
}

type c10Interval struct {
	Kind         string
	Min, Max     float64 // numeric: end points (Inf = open)
	IMin, IMax   int64   // date: nanoseconds; open ends flagged
	OpenMin      bool
	OpenMax      bool
	IncMin       bool
	IncMax       bool
	Lookups      int64
	ExpectedDocs []string `json:",omitempty"`
	GotDocs      []string `json:",omitempty"`
}

// part C: end to end through NumericRangeQuery / DateRangeQuery with a step-counting reader
func c10EndToEnd(c *vk.Ctx, nVals int, limit int64) {
	// values: a spread subset of the boundary set
	Ball := c10IntBoundary(1)
	var F []float64
	seen := map[uint64]bool{}
	addF := func(f float64) {
		if math.IsNaN(f) || math.IsInf(f, 0) || seen[math.Float64bits(f)] {
			return
		}
		seen[math.Float64bits(f)] = true
		F = append(F, f)
	}
	for _, f := range c10FloatSeeds() {
		addF(f)
	}
	r := c.Rand("c10-e2e")
	for len(F) < nVals {
		addF(numeric.Int64ToFloat64(Ball[r.Intn(len(Ball))]))
	}
	if len(F) > nVals {
		r.Shuffle(len(F), func(i, j int) { F[i], F[j] = F[j], F[i] })
		// keep the structural neighbours of 0 and +-1
		keep := []float64{0, math.Copysign(0, -1), 1, -1, math.Nextafter(-1, math.Inf(-1)), math.Nextafter(-1, 0), math.Nextafter(1, 2), math.Nextafter(1, 0)}
		F = F[:nVals]
		for _, k := range keep {
			if !seen[math.Float64bits(k)] {
				continue
			}
			found := false
			for _, f := range F {
				if math.Float64bits(f) == math.Float64bits(k) {
					found = true
				}
			}
			if !found {
				F = append(F, k)
			}
		}
	}
	sort.Slice(F, func(i, j int) bool { return numeric.Float64ToInt64(F[i]) < numeric.Float64ToInt64(F[j]) })
	// dates: int64 nanoseconds
	var D []int64
	dseen := map[int64]bool{}
	for _, v := range []int64{0, 1, -1, math.MaxInt64, math.MinInt64, math.MaxInt64 - 1, math.MinInt64 + 1,
		numeric.Float64ToInt64(math.Inf(1)), numeric.Float64ToInt64(math.Inf(-1)), 1 << 52, 1<<52 - 1, 1<<52 + 1, -(1 << 52), 1600000000000000000, 1600000000000000001} {
		if !dseen[v] {
			dseen[v] = true
			D = append(D, v)
		}
	}
	for len(D) < nVals/2 {
		v := Ball[r.Intn(len(Ball))]
		if !dseen[v] {
			dseen[v] = true
			D = append(D, v)
		}
	}
	sort.Slice(D, func(i, j int) bool { return D[i] < D[j] })

	dir := c.TempDir("c10idx")
	cfg := bx.NoMerge(bluge.DefaultConfig(dir))
	w, err := bluge.OpenWriter(cfg)
	if err != nil {
		c.Violate("harness-open", err.Error(), nil)
		return
	}
	b := bluge.NewBatch()
	nd := 0
	flush := func() {
		if err := w.Batch(b); err != nil {
			c.Violate("harness-batch", err.Error(), nil)
		}
		b = bluge.NewBatch()
	}
	for i, f := range F {
		b.Insert(bluge.NewDocument(fmt.Sprintf("f%04d", i)).AddField(bluge.NewNumericField("n", f)))
		nd++
		if nd%41 == 0 {
			flush()
		}
	}
	for i, d := range D {
		b.Insert(bluge.NewDocument(fmt.Sprintf("d%04d", i)).AddField(bluge.NewDateTimeField("t", time.Unix(0, d))))
		nd++
		if nd%41 == 0 {
			flush()
		}
	}
	flush()
	if err := w.Close(); err != nil {
		c.Violate("harness-close", err.Error(), nil)
	}
	rd, err := bluge.OpenReader(cfg)
	if err != nil {
		c.Violate("harness-openreader", err.Error(), nil)
		return
	}
	defer rd.Close()
	c.Set("e2e_numeric_values", len(F))
	c.Set("e2e_date_values", len(D))
	c.Set("e2e_segments", len(rd.VerifSnapshot().Segments()))

	run := func(iv *c10Interval, req bluge.SearchRequest, expect []string) {
		cr := &bx.CountingReader{Reader: rd.VerifSnapshot(), Limit: limit}
		var hits []bx.Hit
		err, aborted, panicked := bx.Guarded(func() error {
			it, err := bx.SearchVia(context.Background(), cr, cfg, req)
			if err != nil {
				return err
			}
			hits, err = bx.Collect(it, false)
			return err
		})
		c.Eval(1)
		iv.Lookups = cr.Lookups
		c.EventMax("max_dictionary_lookups_per_range_search", cr.Lookups)
		if aborted != nil {
			c.Event("searches_aborted_by_step_limit", 1)
			// classify by call site: does the decomposition hold a single [start,end] term range whose
			// byte-wise (base 256) distance is huge although it spans only a few values?
			key := "range-search-nonterminating:other"
			if lo, hi, ok := iv.intBounds(); ok {
				for _, tr := range searcher.VerifSplitInt64Range(lo, hi, 4) {
					if base256Distance(tr.Start, tr.End) > float64(limit) {
						key = "range-enumeration-bytewise-blowup"
					}
				}
			}
			c.Violate(key, fmt.Sprintf("%s range search exceeded %d dictionary look-ups (legitimate maximum is a few thousand): %s", iv.Kind, limit, vk.JSON(iv)), iv)
			return
		}
		if panicked != "" {
			c.Violate("range-search-panic:"+iv.Kind, panicked, iv)
			return
		}
		if err != nil {
			c.Violate("range-search-error:"+iv.Kind, err.Error()+" "+vk.JSON(iv), iv)
			return
		}
		var got []string
		for _, h := range hits {
			got = append(got, h.ID)
		}
		sort.Strings(got)
		sort.Strings(expect)
		if fmt.Sprint(got) != fmt.Sprint(expect) {
			iv.ExpectedDocs, iv.GotDocs = expect, got
			key := "range-query-inexact:" + iv.Kind
			if iv.Kind == "date" {
				pinf, ninf := numeric.Float64ToInt64(math.Inf(1)), numeric.Float64ToInt64(math.Inf(-1))
				onlyExtremes := true
				for _, id := range symDiff(expect, got) {
					var k int
					fmt.Sscanf(id, "d%d", &k)
					if k >= len(D) || (D[k] != math.MinInt64 && D[k] != math.MaxInt64) {
						onlyExtremes = false
					}
				}
				if (!iv.OpenMin && (iv.IMin == pinf || iv.IMin == ninf)) || (!iv.OpenMax && (iv.IMax == pinf || iv.IMax == ninf)) {
					key = "date-endpoint-with-infinity-bit-pattern"
				} else if onlyExtremes {
					key = "date-value-at-int64-extreme"
				}
			}
			c.Violate(key, fmt.Sprintf("%s: expected %d docs, got %d", vk.JSON(iv), len(expect), len(got)), iv)
			return
		}
		if len(got) > 0 && len(got) < len(F) {
			c.Distinct(fmt.Sprintf("e2e:%s:%d", iv.Kind, len(got)))
		}
	}

	ends := append([]float64{math.Inf(-1)}, F...)
	ends = append(ends, math.Inf(1))
	type job func()
	jobs := make(chan job, 256)
	var wg sync.WaitGroup
	for w := 0; w < runtime.NumCPU(); w++ {
		wg.Add(1)
		go func() {
			defer wg.Done()
			for j := range jobs {
				j()
			}
		}()
	}
	nq := 0
	for ai, a := range ends {
		for bi, bnd := range ends {
			if bi < ai && (ai+bi)%5 != 0 {
				continue
			}
			for inc := 0; inc < 4; inc++ {
				a, bnd, incMin, incMax := a, bnd, inc&1 == 1, inc&2 == 2
				nq++
				jobs <- func() {
					iv := &c10Interval{Kind: "numeric", Min: a, Max: bnd, IncMin: incMin, IncMax: incMax, OpenMin: math.IsInf(a, -1), OpenMax: math.IsInf(bnd, 1)}
					var expect []string
					for i, f := range F {
						vi := numeric.Float64ToInt64(f)
						okLo := iv.OpenMin
						if !okLo {
							if math.IsInf(a, 1) {
								okLo = false
							} else {
								ia := numeric.Float64ToInt64(a)
								okLo = vi > ia || (incMin && vi == ia)
							}
						}
						okHi := iv.OpenMax
						if !okHi {
							if math.IsInf(bnd, -1) {
								okHi = false
							} else {
								ib := numeric.Float64ToInt64(bnd)
								okHi = vi < ib || (incMax && vi == ib)
							}
						}
						if okLo && okHi {
							expect = append(expect, fmt.Sprintf("f%04d", i))
						}
					}
					q := bluge.NewNumericRangeInclusiveQuery(a, bnd, incMin, incMax).SetField("n")
					run(iv, bluge.NewAllMatches(q), expect)
				}
			}
		}
	}
	// dates
	for ai := -1; ai < len(D); ai++ {
		for bi := -1; bi < len(D); bi++ {
			if ai >= 0 && bi >= 0 && bi < ai && (ai+bi)%5 != 0 {
				continue
			}
			if ai < 0 && bi < 0 {
				continue
			}
			for inc := 0; inc < 4; inc++ {
				ai, bi, incMin, incMax := ai, bi, inc&1 == 1, inc&2 == 2
				nq++
				jobs <- func() {
					iv := &c10Interval{Kind: "date", IncMin: incMin, IncMax: incMax, OpenMin: ai < 0, OpenMax: bi < 0}
					var start, end time.Time
					if ai >= 0 {
						iv.IMin = D[ai]
						start = time.Unix(0, D[ai])
					}
					if bi >= 0 {
						iv.IMax = D[bi]
						end = time.Unix(0, D[bi])
					}
					if (ai >= 0 && start.IsZero()) || (bi >= 0 && end.IsZero()) {
						return // the zero time means "open" in the API; not expressible as a bound
					}
					var expect []string
					for i, d := range D {
						okLo := iv.OpenMin || d > iv.IMin || (incMin && d == iv.IMin)
						okHi := iv.OpenMax || d < iv.IMax || (incMax && d == iv.IMax)
						if okLo && okHi {
							expect = append(expect, fmt.Sprintf("d%04d", i))
						}
					}
					q := bluge.NewDateRangeInclusiveQuery(start, end, incMin, incMax).SetField("t")
					run(iv, bluge.NewAllMatches(q), expect)
				}
			}
		}
	}
	close(jobs)
	wg.Wait()
	c.Event("e2e_range_queries", nq)
	c.Sample(map[string]interface{}{"kind": "numeric range query", "min": F[1], "max": F[len(F)-2], "incMin": true, "incMax": false})
}

// intBounds returns the inclusive int64 bounds the searcher derives for the interval.
func (iv *c10Interval) intBounds() (lo, hi int64, ok bool) {
	if iv.Kind == "numeric" {
		lo, hi = math.MinInt64, math.MaxInt64
		if !math.IsInf(iv.Min, -1) {
			lo = numeric.Float64ToInt64(iv.Min)
		}
		if !math.IsInf(iv.Max, 1) {
			hi = numeric.Float64ToInt64(iv.Max)
		}
	} else {
		lo, hi = math.MinInt64, math.MaxInt64
		if !iv.OpenMin {
			lo = iv.IMin
		}
		if !iv.OpenMax {
			hi = iv.IMax
		}
	}
	if !iv.IncMin && lo != math.MaxInt64 {
		lo++
	}
	if !iv.IncMax && hi != math.MinInt64 {
		hi--
	}
	return lo, hi, true
}

func base256Distance(a, b []byte) float64 {
	if len(a) != len(b) {
		return 0
	}
	d := 0.0
	for i := range a {
		d = d*256 + float64(int(b[i])-int(a[i]))
	}
	return d
}

func symDiff(a, b []string) []string {
	m := map[string]int{}
	for _, x := range a {
		m[x]++
	}
	for _, x := range b {
		m[x]--
	}
	var out []string
	for k, v := range m {
		if v != 0 {
			out = append(out, k)
		}
	}
	return out
}

func runC10(c *vk.Ctx) {
	c.Rule("boundary set B of the sortable int64 domain (sign change, +-0 neighbours, subnormals, powers of two, every 4-bit step and 7-bit byte boundary, extremes, infinity bit patterns); " +
		"order embedding: all pairs of B x all 64 shifts; decomposition: all intervals from B x B (plus a sample of inverted ones) against all of B; " +
		"end to end: numeric and date range queries for all end-point pairs x 4 open/closed combinations on a multi-segment index through a look-up counting reader; " +
		"distinct non-trivial = intervals whose decomposition needs >= 2 precision levels, plus e2e (kind, result size) classes with non-empty, non-total results")
	c.Assume("-0 and +0 are distinct points of the order (-0 immediately below +0), as the property states",
		"termination of a range search is decided on logical steps: > 10^6 dictionary look-ups in one search is a violation (legitimate maximum: a few thousand)",
		"end-to-end part reads through OpenReader so that postings-iterator recycling of current-root readers cannot interfere")
	level := c.Pick(1, 2)
	B := c10IntBoundary(level)
	if c.Quick() && len(B) > 260 {
		// thin out deterministically, keeping extremes
		r := c.Rand("thin")
		keep := map[int64]bool{math.MinInt64: true, math.MaxInt64: true, 0: true, -1: true, 1: true}
		idx := r.Perm(len(B))
		out := []int64{}
		for _, i := range idx {
			if len(out) < 255 || keep[B[i]] {
				out = append(out, B[i])
			}
		}
		sort.Slice(out, func(i, j int) bool { return out[i] < out[j] })
		B = out
	}
	c.Exhaustive(true)
	c.Set("exhaustive_scope", fmt.Sprintf("all pairs of the %d-value boundary set for order (64 shifts) and for intervals x all %d values", len(B), len(B)))
	c10Encoding(c, B)
	c10Decomposition(c, B)
	c10EndToEnd(c, c.Pick(70, 160), 1000000)
	c.Sample(map[string]interface{}{"boundary_values_first_10": B[:10], "boundary_values_last_5": B[len(B)-5:]})
	c.Require("order_pairs_checked", 1000)
	c.Require("decomposition_value_checks", 100000)
	c.Require("e2e_range_queries", 1000)
}
