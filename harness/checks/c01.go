package checks

import (
	"fmt"
	"math/rand"
	"runtime"
	"sync"

	"github.com/blugelabs/bluge"

	"verif/harness/model"
	"verif/harness/vk"
)

func init() {
	register(&Check{ID: "C01", Level: "exploration", Run: runC01})
}

// genRichHistory: batches of inserts / updates / deletes over a small id space with documents of all
// field kinds; within one batch no id is named twice (the known-finding probe does that on purpose).
func genRichHistory(r *rand.Rand, n, ids int) []*model.Batch {
	co := &model.Corpus{Vocab: model.GenVocab(r, 5), GeoCX: 10, GeoCY: 20, GeoSpr: 30}
	var out []*model.Batch
	ver := 0
	for i := 0; i < n; i++ {
		b := &model.Batch{}
		nops := r.Intn(7)
		if r.Intn(10) == 0 {
			nops = 0
		}
		named := map[string]bool{}
		for k := 0; k < nops; k++ {
			id := fmt.Sprintf("k%d", r.Intn(ids))
			if named[id] {
				continue
			}
			ver++
			v := fmt.Sprintf("v%d", ver)
			switch r.Intn(10) {
			case 0, 1, 2: // delete (possibly of an absent id)
				named[id] = true
				b.Ops = append(b.Ops, model.Op{Kind: "delete", ID: id})
			case 3: // plain insert: an existing id legitimately gets a second live document
				named[id] = true
				b.Ops = append(b.Ops, model.Op{Kind: "insert", Doc: model.GenDoc(r, co.Vocab, id, v, co, model.CorpusOpts{Geo: true, MultiValue: true})})
			case 4: // update naming one id, carrying a document with another id
				other := fmt.Sprintf("k%d", r.Intn(ids))
				if named[other] || other == id {
					continue
				}
				named[id], named[other] = true, true
				b.Ops = append(b.Ops, model.Op{Kind: "update", ID: id, Doc: model.GenDoc(r, co.Vocab, other, v, co, model.CorpusOpts{Geo: true})})
			default:
				named[id] = true
				b.Ops = append(b.Ops, model.Op{Kind: "update", ID: id, Doc: model.GenDoc(r, co.Vocab, id, v, co, model.CorpusOpts{Geo: true, MultiValue: true})})
			}
		}
		out = append(out, b)
	}
	return out
}

type c01Witness struct {
	Config  string
	Batches []*model.Batch
	FailAt  int
	Layout  string
}

func c01Run(c *vk.Ctx, i int, cfgIdx int, o rigOpts) {
	r := rand.New(rand.NewSource(vk.SubSeed(c.Seed, fmt.Sprintf("c01-%d-%d", cfgIdx, i))))
	if !o.Mem {
		o.Dir = c.TempDir("c01-")
	}
	o.Seed = vk.SubSeed(c.Seed, fmt.Sprintf("c01-jitter-%d-%d", cfgIdx, i))
	rg := newRig(o)
	w, err := bluge.OpenWriter(rg.Cfg)
	if err != nil {
		c.Violate("harness-open", err.Error(), nil)
		return
	}
	batches := genRichHistory(r, c.Pick(24, 50), 7)
	cur := &model.Index{}
	layouts := map[string]bool{}
	reused := false
	seenIDs := map[string]bool{}
	failed := false
	for bi, b := range batches {
		if err := w.Batch(b.ToBluge()); err != nil {
			c.Violate("batch-error", fmt.Sprintf("config %s batch %d: %v", rg.Name, bi, err), &c01Witness{Config: rg.Name, Batches: batches[:bi+1], FailAt: bi})
			failed = true
			break
		}
		for _, op := range b.Ops {
			id := op.ID
			if op.Doc != nil {
				id = op.Doc.ID
			}
			if seenIDs[id] {
				reused = true
			}
			seenIDs[id] = true
		}
		cur = cur.Apply(b)
		if o.SegVer == 2 {
			// ice v2 keeps ONE stored-field decompression buffer per segment, which a running merge and a
			// reader loading stored fields share (known finding of C15): with v2 the reader is compared
			// only while no merge is running
			waitQuietRig(w, !o.Mem)
		}
		rd, err := w.Reader()
		if err != nil {
			c.Violate("reader-error", err.Error(), nil)
			failed = true
			break
		}
		lay := layoutSig(rd)
		layouts[lay] = true
		msg := fullDump(rd, cur)
		_ = rd.Close()
		c.Eval(1)
		if msg != "" {
			c.Violate("reader-differs-from-abstract-index:"+modeOf(o), fmt.Sprintf("config %s after call %d: %s (layout %s)", rg.Name, bi+1, msg, lay), &c01Witness{Config: rg.Name, Batches: batches[:bi+1], FailAt: bi, Layout: lay})
			failed = true
			break
		}
	}
	if !failed {
		waitQuietRig(w, !o.Mem)
		if rd, err := w.Reader(); err == nil {
			lay := layoutSig(rd)
			layouts[lay] = true
			if msg := fullDump(rd, cur); msg != "" {
				c.Violate("reader-differs-after-quiescence:"+modeOf(o), fmt.Sprintf("config %s after background work settled: %s (layout %s)", rg.Name, msg, lay), &c01Witness{Config: rg.Name, Batches: batches, FailAt: len(batches), Layout: lay})
			}
			c.Eval(1)
			_ = rd.Close()
		}
	}
	for _, v := range rg.Violations() {
		c.Violate("seam-violation", fmt.Sprintf("config %s: %s", rg.Name, v), nil)
	}
	if err := w.Close(); err != nil {
		c.Violate("close-error", err.Error(), nil)
	}
	merges := len(rg.RSeg.Merges())
	c.Event("merges_observed", merges)
	c.Event("distinct_layouts", len(layouts))
	c.Event("histories", 1)
	c.Event("config_"+rg.Name, 1)
	if reused && (len(layouts) >= 2 || merges > 0) && !failed {
		c.DistinctHash(vk.Hash64(fmt.Sprintf("%s|%v", rg.Name, vk.JSON(batches))))
	}
	if i == 0 && cfgIdx == 0 {
		c.Sample(map[string]interface{}{"config": rg.Name, "first_batches": batches[:3], "layouts_seen": len(layouts), "merges": merges})
	}
}

func modeOf(o rigOpts) string {
	if o.Unsafe {
		return "unsafe"
	}
	return "safe"
}

// the known-finding probe: two updates of one id in one batch
func c01Probe(c *vk.Ctx) {
	w, err := bluge.OpenWriter(bluge.InMemoryOnlyConfig())
	if err != nil {
		return
	}
	defer w.Close()
	b := &model.Batch{Ops: []model.Op{
		{Kind: "update", ID: "a", Doc: &model.Doc{ID: "a", V: "first"}},
		{Kind: "update", ID: "a", Doc: &model.Doc{ID: "a", V: "second"}},
	}}
	if err := w.Batch(b.ToBluge()); err != nil {
		c.Violate("probe-batch-error", err.Error(), nil)
		return
	}
	rd, _ := w.Reader()
	defer rd.Close()
	d, _ := dumpReader(rd)
	c.Eval(1)
	if len(d) != 1 {
		c.Violate("same-id-twice-in-one-batch", fmt.Sprintf("Update(a,d1); Update(a,d2) in one batch leaves %d live documents for an id written only through Update: %v", len(d), d), b)
	}
}

func runC01(c *vk.Ctx) {
	c.Rule("generated histories (24..50 calls over 7 ids: updates, inserts of existing ids, updates carrying another id, deletes, delete-only and empty batches; documents with text, keyword, numeric, date, geo, stored-only fields) x {file system, in memory} x {ice v1, v2} x {safe, unsafe}, merge-happy options with in-memory merges, seeded jitter at every directory / plug-in / event seam; after every call a new Reader is compared with the abstract index: Count, match-all enumeration with all stored fields, lookup of every id; again after background work settled. " +
		"distinct non-trivial = distinct histories that re-used an id and were observed on >= 2 physical layouts or across >= 1 merge")
	c.Assume("a batch naming one id in two operations is generated only by the dedicated probe (reported as a known finding)",
		"single issuing goroutine; the reader is taken after the call returned")
	configs := []rigOpts{}
	for _, mem := range []bool{false, true} {
		for _, ver := range []int{1, 2} {
			for _, unsafe := range []bool{false, true} {
				configs = append(configs, rigOpts{Mem: mem, SegVer: ver, Unsafe: unsafe, Merge: "happy", MemMerge: true})
			}
		}
	}
	n := c.Pick(20, 400)
	var wg sync.WaitGroup
	sem := make(chan struct{}, runtime.NumCPU())
	for ci, o := range configs {
		for i := 0; i < n; i++ {
			wg.Add(1)
			sem <- struct{}{}
			go func(ci, i int, o rigOpts) {
				defer wg.Done()
				defer func() { <-sem }()
				if i%3 == 2 {
					o.MemMerge = false
				}
				c01Run(c, i, ci, o)
			}(ci, i, o)
		}
	}
	wg.Wait()
	c01Probe(c)
	c.Require("histories", 40)
	c.Require("merges_observed", 20)
}
