package checks

import (
	"encoding/json"
	"fmt"
	"math/rand"
	"strings"
	"sync"
	"time"

	"github.com/blugelabs/bluge"
	"github.com/blugelabs/bluge/index"

	"verif/harness/model"
	"verif/harness/mon"
	"verif/harness/vk"
)

// Faults while an index that already holds data is RE-OPENED (List / Load of the opening writer): the open
// either reports the failure - then a second open, with the fault gone, must work - or, if it reports
// success, the writer must really be usable: further batches are acknowledged, readers follow the model,
// and what is on disk after Close is the model. A failure that is swallowed at open must not come back
// later as refused batches or lost documents.

type c14ReopenCase struct {
	Seed   int64
	Dir    string
	Op     string // list | load
	Nth    int    // the n-th such operation of the reopening writer fails (1-based)
	Unsafe bool
	NoMerge bool // no merging: every segment of phase 1 is still there (and in use) when the index is re-opened
}

type c14ReopenResult struct {
	Fired       bool
	OpenErr     string // error reported by the faulty open ("" = it reported success)
	SecondOpen  string // error of the open after the fault was cleared
	BatchErrs   []string
	AsyncErrs   int
	ReaderBad   []string
	FinalDiff   string
	NoProgress  string
}

func init() {
	vk.RegisterChild("c14reopen", c14ReopenChild)
}

func c14ReopenChild(in json.RawMessage) (interface{}, error) {
	var cs c14ReopenCase
	if err := json.Unmarshal(in, &cs); err != nil {
		return nil, err
	}
	res := &c14ReopenResult{}
	done := make(chan struct{})
	go func() {
		defer close(done)
		c14ReopenWorkload(&cs, res)
	}()
	if dl := awaitWorkload(done, 60*time.Second, "checks.c14ReopenWorkload"); dl != "" {
		return &c14ReopenResult{NoProgress: dl}, nil
	}
	return res, nil
}

func c14ReopenWorkload(cs *c14ReopenCase, res *c14ReopenResult) {
	freshDir(cs.Dir)
	r := rand.New(rand.NewSource(cs.Seed))
	fs := fsOpts{Loader: "mmap", Merge: "happy", MemMerge: cs.Seed%2 == 0, Unsafe: cs.Unsafe}
	if cs.NoMerge {
		fs.Merge = "none"
	}
	// phase 1: an ordinary history, fault free
	w, err := bluge.OpenWriter(fsConfig(cs.Dir, fs, nil))
	if err != nil {
		res.SecondOpen = "phase 1: " + err.Error()
		return
	}
	cur := &model.Index{}
	batches := genHistory(r, 10, 6, "v")
	// the first batches also carry a document that is never touched again: their segments (the ones with
	// the LOWEST ids) stay in use for the whole run
	for k := 0; k < 3 && k < len(batches); k++ {
		id := fmt.Sprintf("keep%d", k)
		batches[k].Ops = append(batches[k].Ops, model.Op{Kind: "update", ID: id, Doc: &model.Doc{ID: id, V: "keep-v", Text: map[string]string{"t": "keep"}}})
	}
	var persisted sync.WaitGroup
	for _, b := range batches {
		rb := b.ToBluge()
		if cs.Unsafe {
			// unsafe mode: a batch is on disk when its persisted call-back has run, not when Batch returns
			persisted.Add(1)
			var once sync.Once
			rb.SetPersistedCallback(func(err error) {
				if err == nil {
					once.Do(persisted.Done)
				}
			})
		}
		if err := w.Batch(rb); err != nil {
			res.BatchErrs = append(res.BatchErrs, "phase 1: "+err.Error())
		}
		cur = cur.Apply(b)
	}
	persisted.Wait() // (a writer that never reports them is ended by the runner's watchdog)
	waitQuiet(w)
	if err := w.Close(); err != nil {
		res.BatchErrs = append(res.BatchErrs, "phase 1 close: "+err.Error())
	}
	// phase 2: reopen with one failing List / Load
	var mu sync.Mutex
	count, active := 0, true
	var asyncN int
	cfg := fsConfig(cs.Dir, fs, func(inner index.Directory) index.Directory {
		rd := mon.NewRDir(inner, cs.Dir)
		rd.Fault = func(idx int, p mon.Point) *mon.FaultSpec {
			mu.Lock()
			defer mu.Unlock()
			if !active || p.Name != cs.Op {
				return nil
			}
			count++
			if count == cs.Nth {
				res.Fired = true
				return &mon.FaultSpec{Err: errInjected, AfterBytes: -1}
			}
			return nil
		}
		return rd
	})
	cfg = withAsyncError(cfg, func(error) { mu.Lock(); asyncN++; mu.Unlock() })
	w, err = bluge.OpenWriter(cfg)
	mu.Lock()
	active = false
	mu.Unlock()
	if err != nil {
		res.OpenErr = err.Error()
		w, err = bluge.OpenWriter(cfg)
		if err != nil {
			res.SecondOpen = err.Error()
			return
		}
	}
	// the writer reported success (at once or at the second attempt): it must be usable
	// (more batches than phase 1 created segments and merges: segment ids handed out after the reopen must
	// get past every id that is already in use)
	more := genHistory(r, 30, 6, "w")
	for i, b := range more {
		if err := w.Batch(b.ToBluge()); err != nil {
			res.BatchErrs = append(res.BatchErrs, fmt.Sprintf("batch %d after the reopen: %v", i+1, err))
		}
		cur = cur.Apply(b)
		if rd, err := w.Reader(); err == nil {
			if d, derr := dumpReader(rd); derr != nil || fmt.Sprint(d) != fmt.Sprint(modelDump(cur)) {
				res.ReaderBad = append(res.ReaderBad, fmt.Sprintf("after batch %d following the reopen: reader shows %v (err %v), model %v", i+1, d, derr, modelDump(cur)))
			}
			_ = rd.Close()
		}
	}
	waitQuiet(w)
	if err := w.Close(); err != nil {
		res.BatchErrs = append(res.BatchErrs, "close: "+err.Error())
	}
	mu.Lock()
	res.AsyncErrs = asyncN
	mu.Unlock()
	if !cs.Unsafe {
		o := openAndDump(cs.Dir, "mmap")
		if o.Err != "" || fmt.Sprint(o.Dump) != fmt.Sprint(modelDump(cur)) {
			res.FinalDiff = fmt.Sprintf("after Close the directory opens as %v (err %q), the acknowledged batches give %v", o.Dump, o.Err, modelDump(cur))
		}
	}
}

func c14Reopen(c *vk.Ctx) {
	var cases []interface{}
	n := c.Pick(2, 12)
	for h := 0; h < n; h++ {
		for _, op := range []string{"list", "load"} {
			for nth := 1; nth <= 3; nth++ {
				cases = append(cases, c14ReopenCase{Seed: vk.SubSeed(c.Seed, fmt.Sprintf("c14-reopen-%d", h)), Dir: c.TempDir("c14r-"), Op: op, Nth: nth, Unsafe: h%3 == 2, NoMerge: h%2 == 1})
			}
		}
	}
	results := vk.RunChildren(c.Scratch(), "c14reopen", cases, vk.ChildOpts{PerChild: 4, Parallel: 16, CaseTimeout: 120 * time.Second, RlimitMB: 3072})
	for i, res := range results {
		cs := cases[i].(c14ReopenCase)
		c.Eval(1)
		wit := map[string]interface{}{"case": cs}
		if res.Faulted() || res.Hung {
			c.Violate("fault-kills-process:reopen", fmt.Sprintf("%s fault #%d while reopening: %s", cs.Op, cs.Nth, firstLines(res.Panic+res.Died, 14)), wit)
			continue
		}
		var out c14ReopenResult
		if res.Out == nil || json.Unmarshal(res.Out, &out) != nil {
			c.Violate("harness-child", fmt.Sprintf("no result: %s", res.Err), wit)
			continue
		}
		if out.NoProgress != "" {
			c.Violate("no-progress-under-fault:reopen", firstLines(out.NoProgress, 40), wit)
			continue
		}
		if !out.Fired {
			c.Event("reopen_placements_that_did_not_fire", 1)
			continue
		}
		c.Event("reopen_faults_fired", 1)
		c.Distinct(fmt.Sprintf("reopen|%s|%d|unsafe=%v|reported=%v", cs.Op, cs.Nth, cs.Unsafe, out.OpenErr != ""))
		if out.OpenErr != "" {
			c.Event("reopen_fault_reported_by_open", 1)
		} else {
			c.Event("reopen_fault_tolerated_by_open", 1)
		}
		if out.SecondOpen != "" {
			c.Violate("cannot-open-after-fault-cleared", fmt.Sprintf("%s fault #%d while reopening was reported (%s); the next open, fault gone, fails: %s", cs.Op, cs.Nth, out.OpenErr, out.SecondOpen), wit)
			continue
		}
		how := "reported by the open, second open succeeded"
		if out.OpenErr == "" {
			how = "the open reported success"
		}
		if len(out.BatchErrs) > 0 {
			c.Violate("writer-unusable-after-fault-at-reopen", fmt.Sprintf("%s fault #%d while reopening (%s): %s", cs.Op, cs.Nth, how, strings.Join(out.BatchErrs, "; ")), wit)
		}
		for _, b := range out.ReaderBad {
			c.Violate("reader-wrong-under-fault:reopen", fmt.Sprintf("%s fault #%d while reopening (%s): %s", cs.Op, cs.Nth, how, b), wit)
			break
		}
		if out.FinalDiff != "" {
			c.Violate("acknowledged-batch-lost:reopen", fmt.Sprintf("%s fault #%d while reopening (%s): %s", cs.Op, cs.Nth, how, out.FinalDiff), wit)
		}
	}
}
