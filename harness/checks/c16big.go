package checks

import (
	"fmt"
	"math/rand"
	"runtime"
	"sync"

	"github.com/blugelabs/bluge"

	"verif/harness/bx"
	"verif/harness/model"
	"verif/harness/vk"
)

// Aggregations over LARGE segments: thousands of documents in one segment (or a few large / merged ones), so
// that the matches of one search span several doc-value chunks of the same segment, with few distinct,
// equal-length keyword values (whatever a calculator keeps between two hits - a term, a bucket, a slice into
// a reader's buffer - is exercised across chunk switches and across segment switches).

type c16BigCase struct {
	Seed   int64
	NDocs  int
	Card   int
	Layout string // one-batch | two-big | merged | one-batch-then-deletes
	Runs   bool   // values laid out in runs rather than at random
}

func c16BigCorpus(cs c16BigCase) ([]*model.Batch, *model.Index) {
	r := rand.New(rand.NewSource(cs.Seed))
	docs := make([]*model.Doc, cs.NDocs)
	for i := range docs {
		var k int
		if cs.Runs {
			k = (i / (1 + r.Intn(700))) % cs.Card
		} else {
			k = r.Intn(cs.Card)
		}
		d := &model.Doc{ID: fmt.Sprintf("d%05d", i), V: "v1",
			Kw:  map[string][]string{"k": {fmt.Sprintf("v%02d", k)}},
			Num: map[string][]float64{"w": {float64(1 + r.Intn(5))}},
		}
		if r.Intn(10) > 0 {
			d.Num["n"] = []float64{float64(r.Intn(41)-20) + []float64{0, 0.5, 0.25}[r.Intn(3)]}
		}
		if r.Intn(2) == 0 {
			d.Text = map[string]string{"t": "x"}
		} else {
			d.Text = map[string]string{"t": "y"}
		}
		if r.Intn(25) == 0 {
			delete(d.Kw, "k")
		}
		docs[i] = d
	}
	var per int
	switch cs.Layout {
	case "two-big":
		per = (cs.NDocs + 1) / 2
	case "merged":
		per = 97
	default:
		per = cs.NDocs
	}
	var batches []*model.Batch
	cur := &model.Index{}
	for off := 0; off < len(docs); off += per {
		end := off + per
		if end > len(docs) {
			end = len(docs)
		}
		b := &model.Batch{}
		for _, d := range docs[off:end] {
			b.Ops = append(b.Ops, model.Op{Kind: "update", ID: d.ID, Doc: d})
		}
		batches = append(batches, b)
		cur = cur.Apply(b)
	}
	if cs.Layout == "one-batch-then-deletes" {
		b := &model.Batch{}
		for _, d := range docs {
			if r.Intn(9) == 0 {
				b.Ops = append(b.Ops, model.Op{Kind: "delete", ID: d.ID})
			}
		}
		batches = append(batches, b)
		cur = cur.Apply(b)
	}
	return batches, cur
}

func c16Big(c *vk.Ctx, cs c16BigCase) {
	batches, final := c16BigCorpus(cs)
	cfg := bluge.InMemoryOnlyConfig()
	if cs.Layout != "merged" {
		cfg = bx.NoMerge(cfg)
	}
	w, err := bluge.OpenWriter(cfg)
	if err != nil {
		c.Violate("harness-open", err.Error(), nil)
		return
	}
	defer w.Close()
	for _, b := range batches {
		if err := w.Batch(b.ToBluge()); err != nil {
			c.Violate("harness-batch", err.Error(), nil)
			return
		}
	}
	if cs.Layout == "merged" {
		waitQuiet(w)
	}
	rd, err := w.Reader()
	if err != nil {
		c.Violate("harness-reader", err.Error(), nil)
		return
	}
	defer rd.Close()
	r := rand.New(rand.NewSource(cs.Seed ^ 0x5eed))
	gen := fmt.Sprintf("c16BigCorpus(%+v)", cs)
	queries := []*model.Q{{Kind: "all"}, {Kind: "term", Field: "t", Term: "x"}, {Kind: "term", Field: "t", Term: "y"}, {Kind: "term", Field: "k", Term: "v00"}}
	for qi, q := range queries {
		var matched []*model.Doc
		for _, d := range final.Docs {
			if q.Eval(d) == model.Yes {
				matched = append(matched, d)
			}
		}
		aggs := genAggs(r)
		aggs["terms-k"] = &aggSpec{Kind: "terms", Field: "k", Size: 50, Sub: map[string]*aggSpec{"s": {Kind: "sum", Field: "n"}, "c": {Kind: "count"}}}
		aggs["card-k"] = &aggSpec{Kind: "card", Field: "k"}
		wit := &c16Witness{Gen: gen, Query: q, Aggs: aggs}
		type variant struct {
			name string
			n    int
			sort []string
			all  bool
		}
		for _, v := range []variant{{name: "big:n=0", n: 0, sort: []string{"_id"}}, {name: "big:n=10,-_id", n: 10, sort: []string{"-_id"}}, {name: "big:n=5,score", n: 5, sort: []string{"-_score"}}, {name: "big:allmatches", all: true}} {
			var req bluge.SearchRequest
			if v.all {
				am := bluge.NewAllMatches(q.ToBluge())
				for n, a := range aggs {
					am.AddAggregation(n, a.build())
				}
				req = am
			} else {
				tn := bluge.NewTopNSearch(v.n, q.ToBluge()).SortBy(v.sort)
				for n, a := range aggs {
					tn.AddAggregation(n, a.build())
				}
				req = tn
			}
			_, aggBucket, err := bx.SafeCollect(rd, req, false)
			c.Eval(1)
			if err != nil {
				c.Violate("search-error", err.Error(), wit)
				continue
			}
			env := &c16Env{c: c, multi: map[string]bool{}, wit: wit, variant: v.name}
			before := c.ViolationCount()
			env.checkAggs("", aggs, aggBucket.Aggregations(), matched)
			if c.ViolationCount() == before && len(matched) > 1024 {
				c.Distinct(fmt.Sprintf("big|%s|card=%d|runs=%v|q%d|%s", cs.Layout, cs.Card, cs.Runs, qi, v.name))
				c.Event("big_segment_requests_with_matches_in_several_chunks", 1)
			}
		}
	}
	c.Event("big_corpora", 1)
}

func c16BigSegments(c *vk.Ctx) {
	var cases []c16BigCase
	n := c.Pick(12, 96)
	layouts := []string{"one-batch", "two-big", "merged", "one-batch-then-deletes"}
	for i := 0; i < n; i++ {
		cases = append(cases, c16BigCase{Seed: vk.SubSeed(c.Seed, fmt.Sprintf("c16-big-%d", i)), NDocs: []int{2500, 3100, 4200, 6000}[i%4], Card: []int{2, 3, 5}[i%3], Layout: layouts[(i/3)%4], Runs: i%2 == 1})
	}
	work := make(chan c16BigCase, len(cases))
	for _, cs := range cases {
		work <- cs
	}
	close(work)
	var wg sync.WaitGroup
	for k := 0; k < runtime.NumCPU(); k++ {
		wg.Add(1)
		go func() {
			defer wg.Done()
			for cs := range work {
				c16Big(c, cs)
			}
		}()
	}
	wg.Wait()
	c.Require("big_segment_requests_with_matches_in_several_chunks", 40)
}
