package checks

import (
	"fmt"
	"math"
	"math/rand"
	"runtime"
	"sort"
	"sync"
	"time"

	"github.com/axiomhq/hyperloglog"
	"github.com/blugelabs/bluge"
	"github.com/blugelabs/bluge/search"
	"github.com/blugelabs/bluge/search/aggregations"

	"verif/harness/bx"
	"verif/harness/model"
	"verif/harness/vk"
)

func init() {
	register(&Check{ID: "C16", Level: "exploration", Run: runC16})
}

// aggSpec is an abstract aggregation tree node.
type aggSpec struct {
	Kind   string // count sum min max avg wavg card quant terms ranges dates
	Field  string `json:",omitempty"`
	Weight string `json:",omitempty"`
	Size   int    `json:",omitempty"`
	Ranges [][2]float64 `json:",omitempty"`
	Dates  [][2]int64   `json:",omitempty"` // nanoseconds; math.MinInt64 = open
	Sub    map[string]*aggSpec `json:",omitempty"`
}

const openDate = math.MinInt64

func (a *aggSpec) build() search.Aggregation {
	switch a.Kind {
	case "count":
		return aggregations.CountMatches()
	case "sum":
		return aggregations.Sum(search.Field(a.Field))
	case "min":
		return aggregations.Min(search.Field(a.Field))
	case "max":
		return aggregations.Max(search.Field(a.Field))
	case "avg":
		return aggregations.Avg(search.Field(a.Field))
	case "wavg":
		return aggregations.WeightedAvg(search.Field(a.Field), search.Field(a.Weight))
	case "card":
		return aggregations.Cardinality(search.Field(a.Field))
	case "quant":
		return aggregations.Quantiles(search.Field(a.Field))
	case "terms":
		t := aggregations.NewTermsAggregation(search.Field(a.Field), a.Size)
		for n, s := range a.Sub {
			t.AddAggregation(n, s.build())
		}
		return t
	case "fterms": // terms over a filtered source (a sibling of plain aggregations over the same field)
		t := aggregations.NewTermsAggregation(aggregations.FilterText(search.Field(a.Field), func(b []byte) bool { return keepText(string(b)) }), a.Size)
		for n, s := range a.Sub {
			t.AddAggregation(n, s.build())
		}
		return t
	case "fsum":
		return aggregations.Sum(aggregations.FilterNumeric(search.Field(a.Field), keepNum))
	case "fcard":
		return aggregations.Cardinality(aggregations.FilterText(search.Field(a.Field), func(b []byte) bool { return keepText(string(b)) }))
	case "ranges":
		r := aggregations.Ranges(search.Field(a.Field))
		for i, rg := range a.Ranges {
			r.AddRange(aggregations.NamedRange(fmt.Sprintf("r%d", i), rg[0], rg[1]))
		}
		for n, s := range a.Sub {
			r.AddAggregation(n, s.build())
		}
		return r
	case "dates":
		r := aggregations.DateRanges(search.Field(a.Field))
		for i, rg := range a.Dates {
			var s, e time.Time
			if rg[0] != openDate {
				s = time.Unix(0, rg[0]).UTC()
			}
			if rg[1] != openDate {
				e = time.Unix(0, rg[1]).UTC()
			}
			r.AddRange(aggregations.NewNamedDateRange(fmt.Sprintf("d%d", i), s, e))
		}
		for n, s := range a.Sub {
			r.AddAggregation(n, s.build())
		}
		return r
	}
	panic("agg kind " + a.Kind)
}

// the predicates of the filtered sources: keep a little more than half of the values, decided by content
func keepText(s string) bool { return len(s) == 0 || (int(s[len(s)-1])+len(s))%3 != 0 }
func keepNum(v float64) bool  { return v >= 0 || math.Mod(math.Floor(-v), 2) == 0 }

type c16Witness struct {
	Gen     string `json:",omitempty"` // how a corpus too large to print is regenerated
	Batches []*model.Batch
	Query   *model.Q
	Aggs    map[string]*aggSpec
	Variant string
	Path    string
	Detail  string
}

type c16Env struct {
	c       *vk.Ctx
	multi   map[string]bool // fields that are multi-valued in this corpus
	wit     *c16Witness
	variant string
}

func (e *c16Env) fail(key, path, detail string) {
	w := *e.wit
	w.Path, w.Detail, w.Variant = path, detail, e.variant
	e.c.Violate(key, fmt.Sprintf("%s at %s [%s]: %s (query %s)", key, path, e.variant, detail, w.Query), &w)
}

func closeTo(a, b float64) bool {
	if a == b {
		return true
	}
	d := math.Abs(a - b)
	return d <= 1e-9*math.Max(1, math.Max(math.Abs(a), math.Abs(b)))
}

// checkAggs compares the calculators of one bucket against direct computation over docs
// (the multiset of documents that bucket consumed).
func (e *c16Env) checkAggs(path string, specs map[string]*aggSpec, calcs map[string]search.Calculator, docs []*model.Doc) {
	for name, sp := range specs {
		calc, ok := calcs[name]
		p := path + "/" + name + ":" + sp.Kind
		if !ok {
			e.fail("aggregation-missing", p, "no calculator in result")
			continue
		}
		e.c.Event("agg_"+sp.Kind, 1)
		var vals []float64
		for _, d := range docs {
			vals = append(vals, d.Num[sp.Field]...)
		}
		metric := func() float64 { return calc.(search.MetricCalculator).Value() }
		switch sp.Kind {
		case "count":
			if int(metric()) != len(docs) {
				e.fail("count-wrong", p, fmt.Sprintf("want %d got %v", len(docs), metric()))
			}
		case "sum":
			s := 0.0
			for _, v := range vals {
				s += v
			}
			if !closeTo(metric(), s) {
				e.fail("sum-wrong", p, fmt.Sprintf("want %v got %v over %d values", s, metric(), len(vals)))
			}
		case "fsum":
			s, k := 0.0, 0
			for _, v := range vals {
				if keepNum(v) {
					s += v
					k++
				}
			}
			if !closeTo(metric(), s) {
				e.fail("filtered-sum-wrong", p, fmt.Sprintf("want %v got %v over %d kept of %d values", s, metric(), k, len(vals)))
			}
		case "fcard":
			h := hyperloglog.New16()
			for _, d := range docs {
				for _, t := range d.Kw[sp.Field] {
					if keepText(t) {
						h.Insert([]byte(t))
					}
				}
			}
			if uint64(metric()) != h.Estimate() {
				e.fail("filtered-cardinality-wrong", p, fmt.Sprintf("sketch fed the kept matched values estimates %d, got %v", h.Estimate(), metric()))
			}
		case "min", "max":
			if len(vals) == 0 {
				break
			}
			m := vals[0]
			for _, v := range vals {
				if (sp.Kind == "min" && v < m) || (sp.Kind == "max" && v > m) {
					m = v
				}
			}
			if metric() != m {
				e.fail(sp.Kind+"-wrong", p, fmt.Sprintf("want %v got %v", m, metric()))
			}
		case "avg":
			if len(vals) == 0 {
				break
			}
			s := 0.0
			for _, v := range vals {
				s += v
			}
			if !closeTo(metric(), s/float64(len(vals))) {
				e.fail("avg-wrong", p, fmt.Sprintf("want %v got %v", s/float64(len(vals)), metric()))
			}
		case "wavg":
			num, den := 0.0, 0.0
			for _, d := range docs {
				w := 1.0
				if ws := d.Num[sp.Weight]; len(ws) > 0 {
					w = ws[0]
				}
				for _, v := range d.Num[sp.Field] {
					num += v * w
					den += w
				}
			}
			if den == 0 {
				break
			}
			if !closeTo(metric(), num/den) {
				e.fail("wavg-wrong", p, fmt.Sprintf("want %v got %v", num/den, metric()))
			}
		case "card":
			h := hyperloglog.New16()
			for _, d := range docs {
				for _, t := range d.Kw[sp.Field] {
					h.Insert([]byte(t))
				}
			}
			if uint64(metric()) != h.Estimate() {
				e.fail("cardinality-wrong", p, fmt.Sprintf("sketch fed the matched values estimates %d, got %v", h.Estimate(), metric()))
			}
		case "quant":
			qc, ok := calc.(*aggregations.QuantilesCalculator)
			if !ok || len(vals) == 0 {
				break
			}
			mn, mx := vals[0], vals[0]
			for _, v := range vals {
				mn, mx = math.Min(mn, v), math.Max(mx, v)
			}
			prev := math.Inf(-1)
			for _, pr := range []float64{0, 0.1, 0.25, 0.5, 0.75, 0.9, 1} {
				v, err := qc.Quantile(pr)
				if err != nil || math.IsNaN(v) || v < mn-1e-9*math.Max(1, math.Abs(mn)) || v > mx+1e-9*math.Max(1, math.Abs(mx)) || v < prev-1e-9*math.Max(1, math.Abs(prev)) {
					e.fail("quantile-wrong", p, fmt.Sprintf("quantile(%v)=%v err=%v, min %v max %v previous %v", pr, v, err, mn, mx, prev))
				}
				prev = v
			}
		case "terms", "fterms":
			tc, ok := calc.(*aggregations.TermsCalculator)
			if !ok {
				e.fail("aggregation-missing", p, "not a terms calculator")
				break
			}
			per := map[string][]*model.Doc{}
			for _, d := range docs {
				for _, t := range d.Kw[sp.Field] {
					if sp.Kind == "fterms" && !keepText(t) {
						continue
					}
					per[t] = append(per[t], d)
				}
			}
			var counts []int
			for _, l := range per {
				counts = append(counts, len(l))
			}
			sort.Sort(sort.Reverse(sort.IntSlice(counts)))
			bks := tc.Buckets()
			wantN := len(per)
			if wantN > sp.Size {
				wantN = sp.Size
			}
			if len(bks) != wantN {
				e.fail("terms-bucket-number", p, fmt.Sprintf("want %d buckets (size %d, %d distinct terms) got %d", wantN, sp.Size, len(per), len(bks)))
			}
			seen := map[string]bool{}
			ret := 0
			for i, b := range bks {
				if seen[b.Name()] {
					e.fail("terms-duplicate-bucket", p, b.Name())
				}
				seen[b.Name()] = true
				if int(b.Count()) != len(per[b.Name()]) {
					e.fail("terms-count-wrong", p, fmt.Sprintf("bucket %q want %d got %d", b.Name(), len(per[b.Name()]), b.Count()))
				}
				// a correct top-size selection by count: the i-th returned count equals the i-th largest count
				if i < len(counts) && int(b.Count()) != counts[i] {
					e.fail("terms-not-top", p, fmt.Sprintf("bucket #%d %q has count %d, the %d-th largest count is %d", i, b.Name(), b.Count(), i, counts[i]))
				}
				ret += int(b.Count())
				sub := map[string]*aggSpec{}
				for n, s := range sp.Sub {
					sub[n] = s
				}
				e.checkAggs(p+"["+b.Name()+"]", sub, b.Aggregations(), per[b.Name()])
			}
			if sp.Kind == "terms" && !e.multi[sp.Field] && tc.Other()+ret != len(docs) {
				e.fail("terms-other-wrong", p, fmt.Sprintf("single-valued field: other %d + returned %d != matches %d", tc.Other(), ret, len(docs)))
			}
		case "ranges":
			rc, ok := calc.(*aggregations.RangeCalculator)
			if !ok {
				e.fail("aggregation-missing", p, "not a range calculator")
				break
			}
			bks := rc.Buckets()
			if len(bks) != len(sp.Ranges) {
				e.fail("ranges-bucket-number", p, fmt.Sprintf("want %d got %d", len(sp.Ranges), len(bks)))
				break
			}
			for i, rg := range sp.Ranges {
				var in []*model.Doc
				nvals := 0
				for _, d := range docs {
					hit := false
					for _, v := range d.Num[sp.Field] {
						if v >= rg[0] && v < rg[1] {
							nvals++
							hit = true
						}
					}
					if hit {
						in = append(in, d)
					}
				}
				got := int(bks[i].Count())
				if e.multi[sp.Field] {
					if got < len(in) || got > nvals {
						e.fail("range-count-wrong", p, fmt.Sprintf("range %v multi-valued: count %d outside [%d docs, %d values]", rg, got, len(in), nvals))
					}
					continue
				}
				if got != len(in) {
					e.fail("range-count-wrong", p, fmt.Sprintf("range [%v,%v): want %d got %d", rg[0], rg[1], len(in), got))
				}
				e.checkAggs(fmt.Sprintf("%s[r%d]", p, i), sp.Sub, bks[i].Aggregations(), in)
			}
		case "dates":
			rc, ok := calc.(*aggregations.DateRangeCalculator)
			if !ok {
				e.fail("aggregation-missing", p, "not a date range calculator")
				break
			}
			bks := rc.Buckets()
			if len(bks) != len(sp.Dates) {
				e.fail("dates-bucket-number", p, fmt.Sprintf("want %d got %d", len(sp.Dates), len(bks)))
				break
			}
			for i, rg := range sp.Dates {
				var in []*model.Doc
				for _, d := range docs {
					for _, v := range d.Date[sp.Field] {
						if (rg[0] == openDate || v >= rg[0]) && (rg[1] == openDate || v < rg[1]) {
							in = append(in, d)
						}
					}
				}
				if int(bks[i].Count()) != len(in) {
					e.fail("daterange-count-wrong", p, fmt.Sprintf("range %v: want %d got %d", rg, len(in), bks[i].Count()))
				}
				if !e.multi[sp.Field] {
					e.checkAggs(fmt.Sprintf("%s[d%d]", p, i), sp.Sub, bks[i].Aggregations(), in)
				}
			}
		}
	}
}

func genMetric(r *rand.Rand) *aggSpec {
	switch r.Intn(8) {
	case 0:
		return &aggSpec{Kind: "sum", Field: "n"}
	case 1:
		return &aggSpec{Kind: "min", Field: "n"}
	case 2:
		return &aggSpec{Kind: "max", Field: "n"}
	case 3:
		return &aggSpec{Kind: "avg", Field: "n"}
	case 4:
		return &aggSpec{Kind: "wavg", Field: "n", Weight: "w"}
	case 5:
		return &aggSpec{Kind: "card", Field: "k"}
	case 6:
		return &aggSpec{Kind: "quant", Field: "n"}
	}
	return &aggSpec{Kind: "sum", Field: "w"}
}

func genBucketAgg(r *rand.Rand, depth int) *aggSpec {
	var a *aggSpec
	switch r.Intn(3) {
	case 0:
		a = &aggSpec{Kind: "terms", Field: "k", Size: 1 + r.Intn(5)}
	case 1:
		a = &aggSpec{Kind: "ranges", Field: "n"}
		for i := 0; i < 1+r.Intn(3); i++ {
			lo := float64(r.Intn(30) - 20)
			a.Ranges = append(a.Ranges, [2]float64{lo, lo + float64(r.Intn(25))})
		}
		if r.Intn(2) == 0 {
			a.Ranges = append(a.Ranges, [2]float64{math.Inf(-1), math.Inf(1)})
		}
	default:
		a = &aggSpec{Kind: "dates", Field: "d"}
		for i := 0; i < 1+r.Intn(3); i++ {
			lo := model.DatePool[r.Intn(len(model.DatePool))]
			hi := model.DatePool[r.Intn(len(model.DatePool))]
			rg := [2]int64{lo, hi}
			if r.Intn(4) == 0 {
				rg[0] = openDate
			} else if r.Intn(4) == 0 {
				rg[1] = openDate
			}
			if rg[0] == 0 || rg[1] == 0 { // time.Unix(0,0) is fine, but keep clear of it to avoid the zero-time meaning "open"
				rg[0], rg[1] = 1, 4096
			}
			a.Dates = append(a.Dates, rg)
		}
	}
	a.Sub = map[string]*aggSpec{}
	for i := 0; i < r.Intn(3); i++ {
		a.Sub[fmt.Sprintf("m%d", i)] = genMetric(r)
	}
	if depth > 1 && r.Intn(2) == 0 {
		a.Sub["nested"] = genBucketAgg(r, depth-1)
	}
	return a
}

func genAggs(r *rand.Rand) map[string]*aggSpec {
	out := map[string]*aggSpec{"count": {Kind: "count"}}
	// several aggregations on one field on purpose
	for i := 0; i < 1+r.Intn(4); i++ {
		out[fmt.Sprintf("m%d", i)] = genMetric(r)
	}
	for i := 0; i < r.Intn(3); i++ {
		out[fmt.Sprintf("b%d", i)] = genBucketAgg(r, 2)
	}
	// in a third of the requests: aggregations over FILTERED sources as siblings of plain ones over the
	// same fields (all aggregations of a request are fed from the same per-hit value slices)
	if r.Intn(3) == 0 {
		out["f-terms"] = &aggSpec{Kind: "fterms", Field: "k", Size: 1 + r.Intn(5), Sub: map[string]*aggSpec{"m": genMetric(r)}}
		out["f-sum"] = &aggSpec{Kind: "fsum", Field: "n"}
		out["f-card"] = &aggSpec{Kind: "fcard", Field: "k"}
		out["plain-terms"] = &aggSpec{Kind: "terms", Field: "k", Size: 50}
		out["plain-card"] = &aggSpec{Kind: "card", Field: "k"}
		out["plain-sum"] = &aggSpec{Kind: "sum", Field: "n"}
	}
	return out
}

func c16Corpus(c *vk.Ctx, i int) {
	r := rand.New(rand.NewSource(vk.SubSeed(c.Seed, fmt.Sprintf("c16-%d", i))))
	multi := i%3 == 0
	co := model.GenCorpus(r, model.CorpusOpts{MaxDocs: 40, MultiValue: multi})
	// every document carries a positive weight, and numeric values small enough for exact float sums
	for _, b := range co.Batches {
		for _, op := range b.Ops {
			if op.Doc != nil {
				if op.Doc.Num == nil {
					op.Doc.Num = map[string][]float64{}
				}
				op.Doc.Num["w"] = []float64{float64(1 + r.Intn(5))}
				var nn []float64
				seen := map[float64]bool{}
				for range op.Doc.Num["n"] {
					v := float64(r.Intn(41)-20) + []float64{0, 0.5, 0.25}[r.Intn(3)]
					if !seen[v] {
						seen[v] = true
						nn = append(nn, v)
					}
				}
				if len(nn) > 0 {
					op.Doc.Num["n"] = nn
				} else {
					delete(op.Doc.Num, "n")
				}
			}
		}
	}
	multiFields := map[string]bool{}
	for _, d := range co.Final.Docs {
		if len(d.Kw["k"]) > 1 {
			multiFields["k"] = true
		}
		if len(d.Num["n"]) > 1 {
			multiFields["n"] = true
		}
		if len(d.Date["d"]) > 1 {
			multiFields["d"] = true
		}
	}
	cfg := bx.NoMerge(bluge.InMemoryOnlyConfig())
	w, err := bluge.OpenWriter(cfg)
	if err != nil {
		c.Violate("harness-open", err.Error(), nil)
		return
	}
	defer w.Close()
	for _, b := range co.Batches {
		if err := w.Batch(b.ToBluge()); err != nil {
			c.Violate("harness-batch", err.Error(), nil)
		}
	}
	rd, _ := w.Reader()
	defer rd.Close()
	nReq := c.Pick(10, 14)
	for qn := 0; qn < nReq; qn++ {
		q := model.GenQuery(r, co, model.QueryOpts{Kinds: []string{"term", "term", "match", "prefix", "all", "kwterm", "termrange"}}, 1)
		var matched []*model.Doc
		undecided := false
		for _, d := range co.Final.Docs {
			switch q.Eval(d) {
			case model.Yes:
				matched = append(matched, d)
			case model.Unknown:
				undecided = true
			}
		}
		if undecided {
			continue
		}
		aggs := genAggs(r)
		wit := &c16Witness{Batches: co.Batches, Query: q, Aggs: aggs}
		type variant struct {
			name    string
			n, from int
			sort    []string
			after   [][]byte
			all     bool
		}
		variants := []variant{
			{name: "n=0", n: 0, sort: []string{"_id"}},
			{name: "n=1,-_id", n: 1, sort: []string{"-_id"}},
			{name: "n=10,from=3", n: 10, from: 3, sort: []string{"_id"}},
			{name: "n=11,sort=n", n: 11, sort: []string{"n", "_id"}},
			{name: "n=1000,score", n: 1000, sort: []string{"-_score"}},
			{name: "n=3,after=d10", n: 3, sort: []string{"_id"}, after: [][]byte{[]byte("d10")}},
			{name: "n=2,sort=-n,from=1", n: 2, from: 1, sort: []string{"-n"}},
			{name: "allmatches", all: true},
		}
		for _, v := range variants {
			var req bluge.SearchRequest
			if v.all {
				am := bluge.NewAllMatches(q.ToBluge())
				for n, a := range aggs {
					am.AddAggregation(n, a.build())
				}
				req = am
			} else {
				tn := bluge.NewTopNSearch(v.n, q.ToBluge()).SetFrom(v.from).SortBy(v.sort)
				if v.after != nil {
					tn.After(v.after)
				}
				for n, a := range aggs {
					tn.AddAggregation(n, a.build())
				}
				req = tn
			}
			_, aggBucket, err := bx.SafeCollect(rd, req, false)
			c.Eval(1)
			if err != nil {
				c.Violate("search-error", err.Error(), wit)
				continue
			}
			env := &c16Env{c: c, multi: multiFields, wit: wit, variant: v.name}
			before := c.ViolationCount()
			env.checkAggs("", aggs, aggBucket.Aggregations(), matched)
			if c.ViolationCount() == before && len(matched) > 0 {
				kinds := ""
				var names []string
				for n := range aggs {
					names = append(names, n)
				}
				sort.Strings(names)
				for _, n := range names {
					kinds += aggs[n].Kind + ","
				}
				c.DistinctHash(vk.Hash64(kinds + "|" + v.name + fmt.Sprint(multi)))
			}
			c.Event("variant_"+v.name, 1)
		}
		if i < 1 && qn < 2 {
			c.Sample(map[string]interface{}{"query": q.String(), "matches": len(matched), "aggregations": aggs})
		}
	}
}

func runC16(c *vk.Ctx) {
	c.Rule("generated corpora (single- and multi-valued keyword/numeric/date fields with missing values, several segments with pending deletions; plus corpora of thousands of documents in ONE segment or a few large ones - several doc-value chunks per segment - with low-cardinality equal-length keyword values) x queries (term, match, prefix, term range, match-all) x aggregation trees (metrics, terms, numeric and date ranges, nested to depth 2, deliberately several aggregations per field) x 8 request variants (n=0..1000, from, sort by id/value/score, search-after, all-matches collector); " +
		"every calculator compared with direct computation over the model's matched documents; distinct non-trivial = distinct (aggregation kinds, variant, multi-valued?) with a non-empty match set and no disagreement")
	c.Assume("document values of a field are the distinct values of that field per document (generated multi-valued documents carry pairwise distinct values)",
		"terms buckets: any correct top-size selection by count is accepted; 'other' is judged for single-valued fields only",
		"range buckets on multi-valued fields: count must lie between #documents and #values in the range",
		"float sums compared with relative tolerance 1e-9; cardinality compared with a fresh HyperLogLog (16 registers bits) fed the same values; quantiles: within [min,max], monotone in rank")
	nCorp := c.Pick(400, 6000)
	workers := runtime.NumCPU()
	var wg sync.WaitGroup
	for w := 0; w < workers; w++ {
		wg.Add(1)
		go func(w int) {
			defer wg.Done()
			for i := w; i < nCorp; i += workers {
				c16Corpus(c, i)
				c.Event("corpora", 1)
			}
		}(w)
	}
	wg.Wait()
	c16BigSegments(c)
	for _, k := range []string{"count", "sum", "min", "max", "avg", "wavg", "card", "quant", "terms", "ranges", "dates"} {
		c.Require("agg_"+k, 20)
	}
}
