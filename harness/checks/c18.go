package checks

import (
	"bytes"
	"encoding/json"
	"fmt"
	"math/rand"
	"regexp"
	"runtime"
	"sort"
	"strings"
	"sync"
	"time"

	"github.com/blugelabs/bluge"
	"github.com/blugelabs/bluge/analysis"
	"github.com/blugelabs/bluge/analysis/analyzer"
	"github.com/blugelabs/bluge/analysis/char"
	"github.com/blugelabs/bluge/analysis/lang/ar"
	"github.com/blugelabs/bluge/analysis/lang/ca"
	"github.com/blugelabs/bluge/analysis/lang/cjk"
	"github.com/blugelabs/bluge/analysis/lang/ckb"
	"github.com/blugelabs/bluge/analysis/lang/da"
	"github.com/blugelabs/bluge/analysis/lang/de"
	"github.com/blugelabs/bluge/analysis/lang/en"
	"github.com/blugelabs/bluge/analysis/lang/es"
	"github.com/blugelabs/bluge/analysis/lang/fa"
	"github.com/blugelabs/bluge/analysis/lang/fi"
	"github.com/blugelabs/bluge/analysis/lang/fr"
	"github.com/blugelabs/bluge/analysis/lang/hi"
	"github.com/blugelabs/bluge/analysis/lang/hu"
	"github.com/blugelabs/bluge/analysis/lang/in"
	"github.com/blugelabs/bluge/analysis/lang/it"
	"github.com/blugelabs/bluge/analysis/lang/nl"
	"github.com/blugelabs/bluge/analysis/lang/no"
	"github.com/blugelabs/bluge/analysis/lang/pt"
	"github.com/blugelabs/bluge/analysis/lang/ro"
	"github.com/blugelabs/bluge/analysis/lang/ru"
	"github.com/blugelabs/bluge/analysis/lang/sv"
	"github.com/blugelabs/bluge/analysis/lang/tr"
	"github.com/blugelabs/bluge/analysis/token"
	"github.com/blugelabs/bluge/analysis/tokenizer"
	"golang.org/x/text/unicode/norm"

	"verif/harness/bx"
	"verif/harness/vk"
)

func init() {
	register(&Check{ID: "C18", Level: "exploration", Run: runC18})
	vk.RegisterChild("c18", c18Child)
}

var c18Analyzers = map[string]func() *analysis.Analyzer{
	"standard": analyzer.NewStandardAnalyzer, "simple": analyzer.NewSimpleAnalyzer, "keyword": analyzer.NewKeywordAnalyzer, "web": analyzer.NewWebAnalyzer,
	"en": en.NewAnalyzer, "ar": ar.Analyzer, "cjk": cjk.Analyzer, "ckb": ckb.Analyzer, "da": da.Analyzer, "de": de.Analyzer, "es": es.Analyzer, "fa": fa.Analyzer,
	"fi": fi.Analyzer, "fr": fr.Analyzer, "hi": hi.Analyzer, "hu": hu.Analyzer, "it": it.Analyzer, "nl": nl.Analyzer, "no": no.Analyzer, "pt": pt.Analyzer,
	"ro": ro.Analyzer, "ru": ru.Analyzer, "sv": sv.Analyzer, "tr": tr.Analyzer,
}

func c18Tokenizers() map[string]func() analysis.Tokenizer {
	return map[string]func() analysis.Tokenizer{
		"unicode":    func() analysis.Tokenizer { return tokenizer.NewUnicodeTokenizer() },
		"letter":     func() analysis.Tokenizer { return tokenizer.NewLetterTokenizer() },
		"whitespace": func() analysis.Tokenizer { return tokenizer.NewWhitespaceTokenizer() },
		"single":     func() analysis.Tokenizer { return tokenizer.NewSingleTokenTokenizer() },
		"web":        func() analysis.Tokenizer { return tokenizer.NewWebTokenizer() },
		"regexp-w":   func() analysis.Tokenizer { return tokenizer.NewRegexpTokenizer(regexp.MustCompile(`\w+`)) },
		"regexp-any": func() analysis.Tokenizer { return tokenizer.NewRegexpTokenizer(regexp.MustCompile(`[^\s,]+`)) },
		"exception":  func() analysis.Tokenizer {
			return tokenizer.NewExceptionsTokenizer(regexp.MustCompile(`[a-z]+@[a-z]+`), tokenizer.NewUnicodeTokenizer())
		},
	}
}

func c18Filters() map[string]func() analysis.TokenFilter {
	m := map[string]func() analysis.TokenFilter{
		"lowercase":   func() analysis.TokenFilter { return token.NewLowerCaseFilter() },
		"apostrophe":  func() analysis.TokenFilter { return token.NewApostropheFilter() },
		"unique":      func() analysis.TokenFilter { return token.NewUniqueTermFilter() },
		"camelcase":   func() analysis.TokenFilter { return token.NewCamelCaseFilter() },
		"reverse":     func() analysis.TokenFilter { return token.NewReverseFilter() },
		"porter":      func() analysis.TokenFilter { return token.NewPorterStemmer() },
		"elision-fr":  func() analysis.TokenFilter { return fr.ElisionFilter() },
		"elision-it":  func() analysis.TokenFilter { return it.ElisionFilter() },
		"elision-ca":  func() analysis.TokenFilter { return ca.ElisionFilter() },
		"stop-en":     func() analysis.TokenFilter { return en.StopWordsFilter() },
		"possessive":  func() analysis.TokenFilter { return en.NewPossessiveFilter() },
		"keyword":     func() analysis.TokenFilter { return token.NewKeyWordMarkerFilter(en.StopWords()) },
		"dict":        func() analysis.TokenFilter {
			tm := analysis.NewTokenMap()
			for _, w := range []string{"soft", "ball", "base", "a", "ab", "日本"} {
				tm.AddToken(w)
			}
			return token.NewDictionaryCompoundFilter(tm, 2, 1, 4, false)
		},
		"norm-nfc": func() analysis.TokenFilter { return token.NewUnicodeNormalizeFilter(norm.NFC) },
		"norm-nfkd": func() analysis.TokenFilter { return token.NewUnicodeNormalizeFilter(norm.NFKD) },
		"cjk-bigram": func() analysis.TokenFilter { return cjk.NewBigramFilter(false) },
		"cjk-bigram-unigram": func() analysis.TokenFilter { return cjk.NewBigramFilter(true) },
		"cjk-width":  func() analysis.TokenFilter { return cjk.NewWidthFilter() },
		"ar-normalize": func() analysis.TokenFilter { return ar.NormalizeFilter() },
		"ar-stem":    func() analysis.TokenFilter { return ar.StemmerFilter() },
		"fa-normalize": func() analysis.TokenFilter { return fa.NormalizeFilter() },
		"ckb-normalize": func() analysis.TokenFilter { return ckb.NormalizeFilter() },
		"ckb-stem":   func() analysis.TokenFilter { return ckb.StemmerFilter() },
		"hi-normalize": func() analysis.TokenFilter { return hi.NormalizeFilter() },
		"hi-stem":    func() analysis.TokenFilter { return hi.StemmerFilter() },
		"in-normalize": func() analysis.TokenFilter { return in.NormalizeFilter() },
		"de-normalize": func() analysis.TokenFilter { return de.NormalizeFilter() },
		"de-light":   func() analysis.TokenFilter { return de.LightStemmerFilter() },
		"de-stem":    func() analysis.TokenFilter { return de.StemmerFilter() },
		"es-light":   func() analysis.TokenFilter { return es.LightStemmerFilter() },
		"fr-light":   func() analysis.TokenFilter { return fr.LightStemmerFilter() },
		"fr-minimal": func() analysis.TokenFilter { return fr.MinimalStemmerFilter() },
		"it-light":   func() analysis.TokenFilter { return it.LightStemmerFilter() },
		"pt-light":   func() analysis.TokenFilter { return pt.LightStemmerFilter() },
		"en-stem":    func() analysis.TokenFilter { return en.StemmerFilter() },
		"ru-stem":    func() analysis.TokenFilter { return ru.StemmerFilter() },
		"tr-stem":    func() analysis.TokenFilter { return tr.StemmerFilter() },
		"fi-stem":    func() analysis.TokenFilter { return fi.StemmerFilter() },
		"hu-stem":    func() analysis.TokenFilter { return hu.StemmerFilter() },
	}
	for min := 1; min <= 3; min++ {
		for max := min; max <= 5; max += 2 {
			min, max := min, max
			m[fmt.Sprintf("ngram-%d-%d", min, max)] = func() analysis.TokenFilter { return token.NewNgramFilter(min, max) }
			m[fmt.Sprintf("edgengram-front-%d-%d", min, max)] = func() analysis.TokenFilter { return token.NewEdgeNgramFilter(token.FRONT, min, max) }
			m[fmt.Sprintf("edgengram-back-%d-%d", min, max)] = func() analysis.TokenFilter { return token.NewEdgeNgramFilter(token.BACK, min, max) }
		}
	}
	for _, p := range [][2]int{{2, 2}, {2, 3}, {3, 5}} {
		p := p
		m[fmt.Sprintf("shingle-%d-%d", p[0], p[1])] = func() analysis.TokenFilter { return token.NewShingleFilter(p[0], p[1], true, " ", "_") }
		m[fmt.Sprintf("shingle-%d-%d-noorig", p[0], p[1])] = func() analysis.TokenFilter { return token.NewShingleFilter(p[0], p[1], false, "", "") }
	}
	for _, n := range []int{0, 1, 3, 10} {
		n := n
		m[fmt.Sprintf("truncate-%d", n)] = func() analysis.TokenFilter { return token.NewTruncateTokenFilter(n) }
	}
	for _, p := range [][2]int{{0, 0}, {1, 3}, {3, 0}, {0, 4}} {
		p := p
		m[fmt.Sprintf("length-%d-%d", p[0], p[1])] = func() analysis.TokenFilter { return token.NewLengthFilter(p[0], p[1]) }
	}
	return m
}

func c18CharFilters() map[string]func() analysis.CharFilter {
	return map[string]func() analysis.CharFilter{
		"html":         func() analysis.CharFilter { return char.NewHTMLCharFilter() },
		"zwnj":         func() analysis.CharFilter { return char.NewZeroWidthNonJoinerCharFilter() },
		"asciifolding": func() analysis.CharFilter { return char.NewASCIIFoldingFilter() },
		"regexp":       func() analysis.CharFilter { return char.NewRegexpCharFilter(regexp.MustCompile(`[0-9]+`), []byte("#")) },
		"regexp-group": func() analysis.CharFilter { return char.NewRegexpCharFilter(regexp.MustCompile(`(a)(b)`), []byte("$2$1")) },
	}
}

var c18Scripts = map[string][]string{
	"latin":      {"The", "quick", "brown", "fox's", "l'avion", "d'une", "naïve", "straße", "ǅungla", "İstanbul", "co-operate", "e-mail", "x", "I", "a", "running", "jumped", "CamelCaseWord", "HTTPServer", "user@example.com", "http://a.b/c?d=1", "3.14", "100%", "O'Neil's", "ﬁ", "Ǆ"},
	"arabic":     {"الكتاب", "كتب", "والمدرسة", "مدرسون", "ـــ", "ٱلرَّحْمَٰنِ", "١٢٣", "لل", "ال", "و"},
	"persian":    {"می‌خواهم", "کتاب‌ها", "خانه", "ي", "ك", "هٔ", "‌"},
	"cyrillic":   {"Привет", "мир", "бегущий", "книги", "ё", "я", "по-русски"},
	"devanagari": {"किताबें", "लड़कियों", "हिन्दी", "क़", "ज़्यादा", "ँ", "क्ष", "ॐ"},
	"cjk":        {"㌀", "㍿", "㌖日本", "日本語", "東京都", "ｶﾀｶﾅ", "ＡＢＣ", "한국어", "中", "ｶﾞ", "、", "テスト", "こんにちは", "ﾞ"},
	"sorani":     {"پێشمەرگە", "كوردستان", "ھەڵە", "ك", "ي", "ە", "ڕۆژ"},
	"misc":       {"😀", "👨\u200d👩\u200d👧", "\u200d", "\u00ad", "\ufeff", "\u0301", "e\u0301", "\ufffd", "\u00a0", "\x00", "\t"},
}

func c18GenInput(r *rand.Rand, class string) []byte {
	switch class {
	case "raw":
		b := make([]byte, r.Intn(40))
		r.Read(b)
		return b
	case "truncated":
		s := c18GenInput(r, []string{"cjk", "arabic", "devanagari", "misc", "latin"}[r.Intn(5)])
		if len(s) > 1 {
			cut := 1 + r.Intn(3)
			if cut >= len(s) {
				cut = len(s) - 1
			}
			s = s[:len(s)-cut]
		}
		if r.Intn(2) == 0 && len(s) > 2 {
			s = s[1+r.Intn(2):]
		}
		return s
	case "mixed":
		var sb bytes.Buffer
		for i := 0; i < 1+r.Intn(6); i++ {
			sb.Write(c18GenInput(r, []string{"latin", "cjk", "arabic", "misc", "raw", "cyrillic"}[r.Intn(6)]))
			sb.WriteByte(" \t\n,.;-'"[r.Intn(8)])
		}
		return sb.Bytes()
	}
	words := c18Scripts[class]
	n := r.Intn(8)
	if r.Intn(10) == 0 {
		n = 0
	}
	var sb strings.Builder
	for i := 0; i < n; i++ {
		if i > 0 {
			sb.WriteString([]string{" ", " ", ", ", "-", "'", "", "  ", ". "}[r.Intn(8)])
		}
		sb.WriteString(words[r.Intn(len(words))])
	}
	return []byte(sb.String())
}

// The pair sweep: every rune of the script blocks the bundled filters keep tables for, followed by (and,
// second half, preceded by) every combining / width / joiner mark - table look-ups indexed by a rune and
// its neighbour are enumerated instead of hoped for. Eight pairs per input, separated by spaces.
var c18SweepBlocks = [][2]rune{{0x00C0, 0x024F}, {0x0370, 0x03FF}, {0x0400, 0x04FF}, {0x0600, 0x06FF}, {0x0900, 0x097F},
	{0x1100, 0x11FF}, {0x3000, 0x30FF}, {0x3300, 0x33FF}, {0xFF00, 0xFFEF}}
var c18SweepMarks = []rune{0x0300, 0x0301, 0x0308, 0x0327, 0x0640, 0x064B, 0x0651, 0x0652, 0x0670, 0x0902, 0x093C, 0x094D,
	0x3099, 0x309A, 0x30FC, 0xFF70, 0xFF9E, 0xFF9F, 0x200C, 0x200D, 0x00AD, 0xFE0F}

const c18SweepGroup = 8

func c18SweepPairs() int {
	n := 0
	for _, b := range c18SweepBlocks {
		n += int(b[1]-b[0]) + 1
	}
	return 2 * n * len(c18SweepMarks)
}

func c18PairInputs() int { return (c18SweepPairs() + c18SweepGroup - 1) / c18SweepGroup }

func c18SweepInputs() int { return c18PairInputs() + c18AffixInputs() }

// The affix sweep: every word made of a stem of at most one letter followed by one or two of the suffix
// fragments the bundled Latin-script stemmers strip (and by three of the shortest ones). Stemmers guard each
// strip by a length test; a word that is nearly all suffix is where a guard that no longer covers a later
// strip shows (an index before the start of the rune slice), and example phrases never contain such words.
var c18AffixStems = []string{"", "a", "s", "f", "\u00e9", "x", "t"}
var c18AffixFragments = []string{"e", "s", "r", "er", "ie", "\u00e9", "es", "a", "o", "i", "en", "st", "em", "n", "t",
	"\u00e9e", "ement", "euse", "eux", "aux", "tion", "ique", "isme", "able", "iste", "ment", "it\u00e9", "eur", "if", "ive", "al",
	"os", "as", "amente", "mente", "idad", "ci\u00f3n", "ico", "ismo", "ista", "ing", "ed", "ly", "ness", "ful", "ern",
	"lich", "heit", "keit", "ung", "ig", "isch", "ene", "ane", "ers", "ets", "hed", "\u00f5es", "\u00e3o", "eza", "ssimo"}

const c18AffixShort = 15 // the first fifteen fragments are also combined three at a time

var c18AffixOnce sync.Once
var c18AffixList []string

func c18AffixWords() []string {
	c18AffixOnce.Do(func() {
		for _, st := range c18AffixStems {
			for _, a := range c18AffixFragments {
				c18AffixList = append(c18AffixList, st+a)
				for _, b := range c18AffixFragments {
					c18AffixList = append(c18AffixList, st+a+b)
				}
			}
			for _, a := range c18AffixFragments[:c18AffixShort] {
				for _, b := range c18AffixFragments[:c18AffixShort] {
					for _, d := range c18AffixFragments[:c18AffixShort] {
						c18AffixList = append(c18AffixList, st+a+b+d)
					}
				}
			}
		}
	})
	return c18AffixList
}

func c18AffixInputs() int { return (len(c18AffixWords()) + c18SweepGroup - 1) / c18SweepGroup }

func c18SweepInput(i int) []byte {
	if i >= c18PairInputs() {
		w := c18AffixWords()
		lo := (i - c18PairInputs()) * c18SweepGroup
		hi := lo + c18SweepGroup
		if hi > len(w) {
			hi = len(w)
		}
		return []byte(strings.Join(w[lo:hi], " "))
	}
	half := c18SweepPairs() / 2
	var sb strings.Builder
	for p := i * c18SweepGroup; p < (i+1)*c18SweepGroup && p < 2*half; p++ {
		q := p % half
		k := q / len(c18SweepMarks)
		m := c18SweepMarks[q%len(c18SweepMarks)]
		var x rune
		for _, b := range c18SweepBlocks {
			w := int(b[1]-b[0]) + 1
			if k < w {
				x = b[0] + rune(k)
				break
			}
			k -= w
		}
		if sb.Len() > 0 {
			sb.WriteByte(' ')
		}
		if p < half {
			sb.WriteRune(x)
			sb.WriteRune(m)
		} else {
			sb.WriteRune(m)
			sb.WriteRune(x)
		}
	}
	return []byte(sb.String())
}

var c18Classes = []string{"latin", "arabic", "persian", "cyrillic", "devanagari", "cjk", "sorani", "misc", "raw", "truncated", "mixed"}

type c18Job struct {
	Kind   string // analyzer tokenizer filter charfilter
	Name   string
	Seed   int64
	N      int
	Search bool
	Sweep  bool // enumerate the rune-pair sweep instead of drawing N inputs
	Lo, Hi int  // sweep: input indexes [Lo, Hi)
}

type c18Finding struct {
	Key   string
	What  string
	Input []byte
	Class string
}

type c18Out struct {
	Inputs     int
	Tokens     int
	Searches   int
	Classes    map[string]int // class -> inputs that produced >= 1 token
	Findings   []c18Finding
}

func tokensEqual(a, b analysis.TokenStream) bool {
	if len(a) != len(b) {
		return false
	}
	for i := range a {
		if a[i].Start != b[i].Start || a[i].End != b[i].End || a[i].PositionIncr != b[i].PositionIncr || !bytes.Equal(a[i].Term, b[i].Term) || a[i].Type != b[i].Type {
			return false
		}
	}
	return true
}

func c18Child(in json.RawMessage) (interface{}, error) {
	var job c18Job
	if err := json.Unmarshal(in, &job); err != nil {
		return nil, err
	}
	out := &c18Out{Classes: map[string]int{}}
	r := rand.New(rand.NewSource(job.Seed))
	add := func(key, what string, input []byte, class string) {
		if len(out.Findings) < 30 {
			out.Findings = append(out.Findings, c18Finding{Key: key, What: what, Input: append([]byte(nil), input...), Class: class})
		}
	}
	if job.Kind == "shared" {
		c18Shared(job, out, add)
		return out, nil
	}
	start, n := 0, job.N
	if job.Sweep {
		start, n = job.Lo, job.Hi
		if n == 0 || n > c18SweepInputs() {
			n = c18SweepInputs()
		}
	}
	for i := start; i < n; i++ {
		var class string
		var input []byte
		if job.Sweep {
			class, input = "pairsweep", c18SweepInput(i)
			if i >= c18PairInputs() {
				class = "affixsweep"
			}
		} else {
			class = c18Classes[r.Intn(len(c18Classes))]
			input = c18GenInput(r, class)
		}
		out.Inputs++
		func() {
			defer func() {
				if rec := recover(); rec != nil {
					key := job.Kind + "-panic:" + job.Name
					valid := "valid-utf8"
					if !utf8Valid(input) {
						valid = "invalid-utf8"
					}
					add(key+":"+valid, fmt.Sprintf("%s %s panicked on %q: %v\n%s", job.Kind, job.Name, input, rec, firstLines(stackString(), 14)), input, class)
				}
			}()
			switch job.Kind {
			case "analyzer":
				mk := c18Analyzers[job.Name]
				a := mk()
				t1 := a.Analyze(append([]byte(nil), input...))
				t2 := mk().Analyze(append([]byte(nil), input...))
				if !tokensEqual(t1, t2) {
					add("analysis-not-deterministic:"+job.Name, fmt.Sprintf("analyzer %s gave different tokens for %q on two runs", job.Name, input), input, class)
				}
				seen := input
				for _, cf := range a.CharFilters {
					seen = cf.Filter(append([]byte(nil), seen...))
				}
				for k, tk := range t1 {
					if tk.PositionIncr < 0 {
						add("negative-position-increment:"+job.Name, fmt.Sprintf("analyzer %s token %d of %q has PositionIncr %d", job.Name, k, input, tk.PositionIncr), input, class)
					}
					if tk.Start < 0 || tk.Start > tk.End || tk.End > len(seen) {
						valid := "valid-utf8"
						if !utf8Valid(input) {
							valid = "invalid-utf8"
						}
						add("offsets-out-of-range:"+job.Name+":"+valid, fmt.Sprintf("analyzer %s token %d (%q) of %q has offsets [%d,%d), the tokenizer saw %d bytes", job.Name, k, tk.Term, input, tk.Start, tk.End, len(seen)), input, class)
					}
				}
				out.Tokens += len(t1)
				if len(t1) > 0 {
					out.Classes[class]++
				}
				if job.Search && len(t1) > 0 && i%4 == 0 {
					out.Searches++
					if msg := c18RoundTrip(a, input); msg != "" {
						add("document-not-found-by-its-own-text:"+job.Name, fmt.Sprintf("analyzer %s: %s (text %q)", job.Name, msg, input), input, class)
					}
				}
			case "tokenizer":
				mk := c18Tokenizers()[job.Name]
				t1 := mk().Tokenize(append([]byte(nil), input...))
				t2 := mk().Tokenize(append([]byte(nil), input...))
				if !tokensEqual(t1, t2) {
					add("analysis-not-deterministic:"+job.Name, fmt.Sprintf("tokenizer %s gave different tokens for %q", job.Name, input), input, class)
				}
				for k, tk := range t1 {
					if tk.PositionIncr < 0 {
						add("negative-position-increment:"+job.Name, fmt.Sprintf("tokenizer %s token %d PositionIncr %d", job.Name, k, tk.PositionIncr), input, class)
					}
					if tk.Start < 0 || tk.Start > tk.End || tk.End > len(input) {
						add("offsets-out-of-range:"+job.Name, fmt.Sprintf("tokenizer %s token %d (%q) of %q has offsets [%d,%d) in %d bytes", job.Name, k, tk.Term, input, tk.Start, tk.End, len(input)), input, class)
						continue
					}
					if !bytes.Equal(tk.Term, input[tk.Start:tk.End]) {
						add("token-text-is-not-the-input-slice:"+job.Name, fmt.Sprintf("tokenizer %s token %d of %q: term %q but input[%d:%d] = %q", job.Name, k, input, tk.Term, tk.Start, tk.End, input[tk.Start:tk.End]), input, class)
					}
				}
				out.Tokens += len(t1)
				if len(t1) > 0 {
					out.Classes[class]++
				}
			case "filter":
				mk := c18Filters()[job.Name]
				// a token stream straight into the filter: whole input as one token, its whitespace pieces, empty and one-rune tokens
				mkStream := func() analysis.TokenStream {
					var ts analysis.TokenStream
					pos := 0
					incr := 1
					for pi, piece := range bytes.Fields(input) {
						idx := bytes.Index(input[pos:], piece)
						st := pos + idx
						pos = st + len(piece)
						// every other input: some pieces are left out, as a stop / length / unique filter in
						// front would do, and the next token carries the position gap
						if i%2 == 1 && pi > 0 && (i*31+pi*17)%3 == 0 {
							incr++
							continue
						}
						typ := analysis.AlphaNumeric
						if class == "cjk" || (len(piece) > 0 && piece[0] >= 0xe3) {
							typ = analysis.Ideographic
						}
						ts = append(ts, &analysis.Token{Term: append([]byte(nil), piece...), Start: st, End: st + len(piece), PositionIncr: incr, Type: typ})
						incr = 1
					}
					if i%3 == 0 {
						ts = append(ts, &analysis.Token{Term: []byte{}, Start: len(input), End: len(input), PositionIncr: 1})
					}
					// (not for chains: the second filter must get a stream in text order, as an analyzer gives it)
					if i%5 == 0 && len(input) > 0 && !strings.Contains(job.Name, "+") {
						ts = append(ts, &analysis.Token{Term: append([]byte(nil), input...), Start: 0, End: len(input), PositionIncr: 1, Type: analysis.Ideographic})
					}
					return ts
				}
				_ = mk
				apply := func() analysis.TokenStream {
					ts := mkStream()
					for _, nm := range strings.Split(job.Name, "+") { // "a+b": filter a feeding filter b
						ts = c18Filters()[nm]().Filter(ts)
					}
					return ts
				}
				t1 := apply()
				t2 := apply()
				if !tokensEqual(t1, t2) {
					add("analysis-not-deterministic:"+job.Name, fmt.Sprintf("filter %s gave different tokens for %q", job.Name, input), input, class)
				}
				for k, tk := range t1 {
					if tk == nil {
						add("nil-token:"+job.Name, fmt.Sprintf("filter %s produced a nil token at %d for %q", job.Name, k, input), input, class)
						continue
					}
					if tk.PositionIncr < 0 {
						add("negative-position-increment:"+job.Name, fmt.Sprintf("filter %s token %d PositionIncr %d", job.Name, k, tk.PositionIncr), input, class)
					}
					if tk.Start < 0 || tk.Start > tk.End || tk.End > len(input) {
						valid := "valid-utf8"
						if !utf8Valid(input) {
							valid = "invalid-utf8"
						}
						kname := job.Name
						if valid == "invalid-utf8" && strings.Contains(job.Name, "+") && strings.Contains(job.Name, "camelcase") {
							// the camel-case filter's offsets on invalid UTF-8 (listed finding) carried through its partner
							kname = "camelcase"
						}
						add("offsets-out-of-range:"+kname+":"+valid, fmt.Sprintf("filter %s token %d (%q) of %q has offsets [%d,%d) in %d bytes", job.Name, k, tk.Term, input, tk.Start, tk.End, len(input)), input, class)
					}
				}
				out.Tokens += len(t1)
				if len(t1) > 0 {
					out.Classes[class]++
				}
			case "charfilter":
				mk := c18CharFilters()[job.Name]
				o1 := mk().Filter(append([]byte(nil), input...))
				o2 := mk().Filter(append([]byte(nil), input...))
				if !bytes.Equal(o1, o2) {
					add("analysis-not-deterministic:"+job.Name, fmt.Sprintf("char filter %s gave different output for %q", job.Name, input), input, class)
				}
				out.Tokens += len(o1)
				if len(o1) > 0 {
					out.Classes[class]++
				}
			}
		}()
	}
	return out, nil
}

func utf8Valid(b []byte) bool { return strings.ToValidUTF8(string(b), "") == string(b) }

func stackString() string {
	buf := make([]byte, 8192)
	n := runtime.Stack(buf, false)
	return string(buf[:n])
}

// c18RoundTrip indexes the text with the analyzer and searches it with a match query (all terms required).
func c18RoundTrip(a *analysis.Analyzer, text []byte) string {
	w, err := bluge.OpenWriter(bx.NoMerge(bluge.InMemoryOnlyConfig()))
	if err != nil {
		return ""
	}
	defer w.Close()
	// (the field gets its own copy: token filters such as the lower case filter rewrite terms in place,
	// i.e. inside the byte slice handed to NewTextFieldBytes)
	d := bluge.NewDocument("d").AddField(bluge.NewTextFieldBytes("t", append([]byte(nil), text...)).WithAnalyzer(a))
	if err := w.Update(d.ID(), d); err != nil {
		return "indexing failed: " + err.Error()
	}
	rd, err := w.Reader()
	if err != nil {
		return ""
	}
	defer rd.Close()
	q := bluge.NewMatchQuery(string(text)).SetField("t").SetAnalyzer(a).SetOperator(bluge.MatchQueryOperatorAnd)
	hits, _, err := bx.SafeCollect(rd, bluge.NewAllMatches(q), false)
	if err != nil {
		return "search failed: " + err.Error()
	}
	if len(hits) != 1 {
		return fmt.Sprintf("match query (all terms) over the document's own text found %d documents", len(hits))
	}
	return ""
}

// c18Shared: ONE analyzer instance used the way a Writer uses it - several documents of one batch are
// analysed by several goroutines at once. The tokens must be the ones a fresh instance gives for the same
// text one at a time, and a batch of documents indexed through a real writer must each be found by a
// match query over their own text.
func c18Shared(job c18Job, out *c18Out, add func(key, what string, input []byte, class string)) {
	mk := c18Analyzers[job.Name]
	r := rand.New(rand.NewSource(job.Seed))
	const nIn = 48
	var inputs [][]byte
	var classes []string
	var ref []analysis.TokenStream
	for i := 0; i < nIn; i++ {
		class := []string{"cjk", "cjk", "latin", "arabic", "cyrillic", "devanagari", "mixed", "sorani", "persian"}[r.Intn(9)]
		in := c18GenInput(r, class)
		inputs = append(inputs, in)
		classes = append(classes, class)
		ref = append(ref, mk().Analyze(append([]byte(nil), in...)))
		out.Inputs++
	}
	shared := mk()
	var mu sync.Mutex
	var wg sync.WaitGroup
	for g := 0; g < 4; g++ {
		wg.Add(1)
		go func(g int) {
			defer wg.Done()
			for pass := 0; pass < 3; pass++ {
				for k := 0; k < nIn; k++ {
					i := (k*7 + g*11 + pass) % nIn
					func() {
						defer func() {
							if rec := recover(); rec != nil {
								mu.Lock()
								add("analyzer-panic-under-concurrent-use:"+job.Name, fmt.Sprintf("analyzer %s (one instance, 4 goroutines) panicked on %q: %v\n%s", job.Name, inputs[i], rec, firstLines(stackString(), 12)), inputs[i], classes[i])
								mu.Unlock()
							}
						}()
						got := shared.Analyze(append([]byte(nil), inputs[i]...))
						if !tokensEqual(got, ref[i]) {
							mu.Lock()
							add("analysis-differs-under-concurrent-use:"+job.Name, fmt.Sprintf("analyzer %s: one instance used by 4 goroutines gave %d tokens for %q, a fresh instance used alone gives %d (or their offsets / terms differ)", job.Name, len(got), inputs[i], len(ref[i])), inputs[i], classes[i])
							mu.Unlock()
						}
					}()
				}
			}
		}(g)
	}
	wg.Wait()
	// the same through a real writer: one batch, the writer's analysis workers share the instance
	w, err := bluge.OpenWriter(bx.NoMerge(bluge.InMemoryOnlyConfig()))
	if err != nil {
		return
	}
	defer w.Close()
	b := bluge.NewBatch()
	for i, in := range inputs {
		d := bluge.NewDocument(fmt.Sprintf("d%02d", i)).AddField(bluge.NewTextFieldBytes("t", append([]byte(nil), in...)).WithAnalyzer(shared))
		b.Update(d.ID(), d)
	}
	if err := w.Batch(b); err != nil {
		add("batch-of-documents-fails:"+job.Name, err.Error(), nil, "")
		return
	}
	rd, err := w.Reader()
	if err != nil {
		return
	}
	defer rd.Close()
	for i, in := range inputs {
		if len(ref[i]) == 0 {
			continue
		}
		out.Searches++
		q := bluge.NewMatchQuery(string(in)).SetField("t").SetAnalyzer(mk()).SetOperator(bluge.MatchQueryOperatorAnd)
		hits, _, err := bx.SafeCollect(rd, bluge.NewAllMatches(q), false)
		if err != nil {
			continue
		}
		found := false
		for _, h := range hits {
			if h.ID == fmt.Sprintf("d%02d", i) {
				found = true
			}
		}
		if !found {
			add("document-of-a-batch-not-found-by-its-own-text:"+job.Name, fmt.Sprintf("analyzer %s: %d documents indexed in ONE batch; a match query (all terms) over the text of document %d (%q) does not find it", job.Name, nIn, i, in), in, classes[i])
		}
	}
	out.Tokens += nIn
	out.Classes["shared-instance"]++
}

func runC18(c *vk.Ctx) {
	c.Rule("script-aware generators (Latin, Arabic, Persian, Cyrillic, Devanagari, CJK incl. half/full width, Sorani, emoji / joiners / control characters, raw bytes, truncated runes, mixtures) fed to all 24 bundled analyzers, 8 tokenizers, ~75 token filter configurations (n-gram, edge n-gram, shingle, truncate, length grids; stemmers, normalisers, elision, compound, bigram, width ...) with synthetic token streams (whole input, pieces, empty and one-rune tokens) and 5 char filters, in child processes with a progress watchdog; plus an enumerated sweep through every analyzer / tokenizer / filter of all (rune, mark) and (mark, rune) pairs for the runes of nine script blocks (Latin-1 sup./ext., Greek, Cyrillic, Arabic, Devanagari, Hangul Jamo, CJK symbols + kana, CJK compatibility, half/full-width forms) x 22 combining / voiced / joiner / width marks, and of every word made of a stem of at most one letter plus one or two (three of the fifteen shortest) of 61 suffix fragments the Latin-script stemmers strip; " +
		"oracle: no panic, two runs agree, PositionIncr >= 0, 0 <= start <= end <= length of what the tokenizer saw, tokenizer term = input slice, and (every 4th input with tokens) a one-document index finds the document by a match query requiring all terms of its own text. distinct non-trivial = distinct (component, input class) that produced at least one token")
	c.Assume("'the text the tokenizer saw' is obtained by applying the analyzer's own CharFilters to the input",
		"non-termination is caught by the child's progress watchdog (wall clock, 90 s without a finished input batch) and reported as inconclusive unless the child died")
	per := c.Pick(1500, 120000)
	var cases []interface{}
	var names []string
	// every component's inputs are cut into chunks of at most 2000 (one case each), so that the progress
	// watchdog of the child runner sees a finished case every few seconds even on a loaded machine
	const chunk = 2000
	addJobs := func(kind, name, label string, n int, search bool) {
		for k := 0; k*chunk < n; k++ {
			m := chunk
			if (k+1)*chunk > n {
				m = n - k*chunk
			}
			cases = append(cases, c18Job{Kind: kind, Name: name, Seed: vk.SubSeed(c.Seed, fmt.Sprintf("%s-%s-%d", label, name, k)), N: m, Search: search})
			names = append(names, kind+":"+name)
		}
		if kind == "charfilter" {
			return
		}
		// the enumerated rune-pair sweep through every analyzer, tokenizer and token filter
		for lo := 0; lo < c18SweepInputs(); lo += chunk {
			hi := lo + chunk
			if hi > c18SweepInputs() {
				hi = c18SweepInputs()
			}
			cases = append(cases, c18Job{Kind: kind, Name: name, Sweep: true, Lo: lo, Hi: hi, Search: search && !c.Quick()})
			names = append(names, kind+":"+name)
		}
	}
	for name := range c18Analyzers {
		addJobs("analyzer", name, "an", per, true)
		// one instance shared by goroutines and by the analysis workers of a real batch
		for k := 0; k < c.Pick(2, 40); k++ {
			cases = append(cases, c18Job{Kind: "shared", Name: name, Seed: vk.SubSeed(c.Seed, fmt.Sprintf("shared-%s-%d", name, k))})
			names = append(names, "analyzer:"+name)
		}
	}
	for name := range c18Tokenizers() {
		addJobs("tokenizer", name, "tk", per, false)
	}
	for name := range c18Filters() {
		addJobs("filter", name, "tf", per/2, false)
	}
	for name := range c18CharFilters() {
		addJobs("charfilter", name, "cf", per/2, false)
	}
	// Arbitrary chains of two filters ("a+b" job names are still understood by the child) were tried and
	// taken out again: the property quantifies over the bundled analyzers and over single configurable
	// filters, not over every composition, and compositions no analyzer uses (shingles of shingles, a
	// dictionary-compound filter behind a shingle filter) break the offset rule on the unchanged tree,
	// see DESIGN 5a. What a filter in front can do to a stream in an analyzer - leave tokens out and pass
	// the position gap on - is part of the synthetic streams of the single-filter jobs instead.
	_ = sort.Strings
	c.Set("pair_sweep_pairs", c18SweepPairs())
	c.Set("affix_sweep_words", len(c18AffixWords()))
	opts := vk.ChildOpts{PerChild: 8, Parallel: runtime.NumCPU(), CaseTimeout: 120 * time.Second, RlimitMB: 3072}
	results := vk.RunChildren(c.Scratch(), "c18", cases, opts)
	for i := range results {
		res := results[i]
		job := cases[i].(c18Job)
		if res.Reran {
			// the runner's watchdog fired once; it has run the chunk again, alone, with a five-minute
			// watchdog: only a chunk of <= 2000 short inputs that stalls then as well is reported
			c.Event("chunks_rerun_after_watchdog", 1)
		}
		if res.Hung {
			c.Inconclusive("watchdog:" + names[i])
			c.Violate("analysis-does-not-terminate:"+job.Name, fmt.Sprintf("%s: a chunk of %d inputs made no progress for 120 s and, run again alone, for 300 s: %s", names[i], job.N+job.Hi-job.Lo, firstLines(res.Died, 30)), job)
			continue
		}
		if res.Faulted() {
			c.Violate("analysis-kills-process:"+job.Name, fmt.Sprintf("%s: %s", names[i], firstLines(res.Panic+res.Died, 20)), job)
			continue
		}
		var out c18Out
		if res.Out == nil || json.Unmarshal(res.Out, &out) != nil {
			c.Violate("harness-child", fmt.Sprintf("%s: no result (%s)", names[i], res.Err), nil)
			continue
		}
		c.Eval(out.Inputs)
		c.Event("inputs_"+job.Kind, out.Inputs)
		if job.Sweep {
			c.Event("pair_sweep_inputs", out.Inputs)
		}
		c.Event("tokens_produced", out.Tokens)
		c.Event("roundtrip_searches", out.Searches)
		for cl, n := range out.Classes {
			if n > 0 {
				c.Distinct(names[i] + "|" + cl)
			}
		}
		for _, f := range out.Findings {
			c.Violate(f.Key, f.What, map[string]interface{}{"component": names[i], "input_hex": fmt.Sprintf("%x", f.Input), "input": string(f.Input), "class": f.Class})
		}
	}
	c.Sample(map[string]interface{}{"component": "analyzer:standard", "example_inputs": []string{string(c18GenInput(c.Rand("s1"), "latin")), string(c18GenInput(c.Rand("s2"), "cjk")), fmt.Sprintf("%x", c18GenInput(c.Rand("s3"), "truncated"))}})
	if !c.Quick() {
		runGoFuzz(c, "FuzzAnalyzers", 600000) // coverage-guided, all 24 analyzers behind one selector byte
	}
	c.Require("inputs_analyzer", 10000)
	c.Require("inputs_filter", 10000)
	c.Require("roundtrip_searches", 1000)
}
