package checks

import (
	"context"
	"fmt"
	"io"
	"log"
	"math"
	"math/rand"
	"runtime"
	"sort"
	"strings"
	"sync"
	"time"

	"github.com/blugelabs/bluge"
	"github.com/blugelabs/bluge/index"
	"github.com/blugelabs/bluge/search"
	"github.com/blugelabs/bluge/search/aggregations"

	"verif/harness/bx"
	"verif/harness/model"
	"verif/harness/vk"
)

func init() {
	register(&Check{ID: "C08", Level: "exploration", Run: runC08})
	log.SetOutput(io.Discard) // bluge logs unloadable snapshots through the standard logger
}

// c08Build is one physical build of a document multiset.
type c08Build struct {
	name     string
	readers  []*bluge.Reader // >1 => searched with MultiSearch
	clean    func()
	merged   bool // contains merged segments (BM25 statistics differ: known finding, scores not compared)
	pending  bool // has pending deletions (scores not compared)
	segments int
	noScore  bool
}

type c08Answer struct {
	ids    []string            // sorted multiset
	stored map[string]string   // id -> canonical stored content
	groups []string            // for field sorts: sequence of "sortkey => {ids}"
	aggs   string
	scores map[string]float64
	err    string
}

func c08Request(q *model.Q, form string, scoreNone bool) bluge.SearchRequest {
	addAggs := func(add func(string, search.Aggregation)) {
		add("count", aggregations.CountMatches())
		add("sum", aggregations.Sum(search.Field("n")))
		add("min", aggregations.Min(search.Field("n")))
		add("max", aggregations.Max(search.Field("n")))
		add("terms", aggregations.NewTermsAggregation(search.Field("k"), 100))
		add("ranges", aggregations.Ranges(search.Field("n")).AddRange(aggregations.NamedRange("neg", -1e18, 0)).AddRange(aggregations.NamedRange("low", 0, 16)).AddRange(aggregations.NamedRange("high", 16, 1e300)))
		add("card", aggregations.Cardinality(search.Field("k")))
	}
	switch form {
	case "all":
		r := bluge.NewAllMatches(q.ToBluge())
		addAggs(r.AddAggregation)
		return r
	}
	r := bluge.NewTopNSearch(1000, q.ToBluge())
	switch form {
	case "sort-k":
		r.SortBy([]string{"k", "-n"})
	case "sort-n":
		r.SortBy([]string{"-n"})
	case "sort-d-id":
		r.SortBy([]string{"d", "_id"})
	case "sort-id":
		r.SortBy([]string{"_id"})
	}
	if scoreNone {
		r.SetScore("none")
	}
	addAggs(r.AddAggregation)
	return r
}

func c08Ask(b *c08Build, req bluge.SearchRequest, form string, byV map[string]*model.Doc) *c08Answer {
	a := &c08Answer{stored: map[string]string{}, scores: map[string]float64{}}
	var hits []bx.Hit
	var aggs *search.Bucket
	var err error
	if len(b.readers) == 1 {
		hits, aggs, err = bx.SafeCollect(b.readers[0], req, true)
	} else {
		var it search.DocumentMatchIterator
		it, err = bluge.MultiSearch(context.Background(), req, b.readers...)
		if err == nil {
			hits, err = bx.Collect(it, true)
			if err == nil {
				aggs = it.Aggregations()
			}
		}
	}
	if err != nil {
		a.err = err.Error()
		return a
	}
	var curKey string
	var cur []string
	flush := func() {
		if cur != nil {
			sort.Strings(cur)
			a.groups = append(a.groups, fmt.Sprintf("%x => %v", curKey, cur))
		}
	}
	for _, h := range hits {
		a.ids = append(a.ids, h.ID)
		var like *model.Doc
		if v := h.Stored["v"]; len(v) > 0 {
			like = byV[v[0]]
		}
		a.stored[h.ID+"/"+fmt.Sprint(h.Stored["v"])] = model.CanonStored(h.Stored, like)
		a.scores[h.ID+"/"+fmt.Sprint(h.Stored["v"])] = h.Score
		if strings.HasPrefix(form, "sort-") {
			k := fmt.Sprintf("%x", h.Sort)
			if cur == nil || k != curKey {
				flush()
				curKey, cur = k, []string{}
			}
			cur = append(cur, h.ID)
		}
	}
	flush()
	sort.Strings(a.ids)
	if aggs != nil {
		var tb []string
		for _, bk := range aggs.Buckets("terms") {
			tb = append(tb, fmt.Sprintf("%s:%d", bk.Name(), bk.Count()))
		}
		sort.Strings(tb)
		var rb []string
		for _, bk := range aggs.Buckets("ranges") {
			rb = append(rb, fmt.Sprintf("%s:%d", bk.Name(), bk.Count()))
		}
		a.aggs = fmt.Sprintf("count=%d sum=%.9g min=%v max=%v card=%v terms=%v ranges=%v", aggs.Count(), aggs.Metric("sum"), aggs.Metric("min"), aggs.Metric("max"), aggs.Metric("card"), tb, rb)
		if aggs.Count() == 0 { // min/max of nothing are the neutral elements; still compared
			a.aggs = fmt.Sprintf("count=0 sum=%.9g terms=%v ranges=%v", aggs.Metric("sum"), tb, rb)
		}
	}
	return a
}

// waitQuiet polls the writer's layout until it stops changing (exploration only: the oracle
// does not depend on it, content must agree at any moment).
func waitQuiet(w *bluge.Writer) {
	last := ""
	stable := 0
	for i := 0; i < 400 && stable < 6; i++ {
		rd, err := w.Reader()
		if err != nil {
			return
		}
		sig := ""
		for _, s := range rd.VerifSnapshot().VerifSegments() {
			sig += fmt.Sprintf("%d,", s.ID)
		}
		for _, p := range rd.VerifSnapshot().VerifPersisted() {
			sig += fmt.Sprint(p)
		}
		_ = rd.Close()
		if sig == last {
			stable++
		} else {
			stable = 0
			last = sig
		}
		time.Sleep(5 * time.Millisecond)
	}
}

func layoutOf(rd *bluge.Reader) (segs int, pending bool) {
	for _, s := range rd.VerifSnapshot().Segments() {
		segs++
		if s.Deleted() != nil && !s.Deleted().IsEmpty() {
			pending = true
		}
	}
	return
}

// c08Builds builds the document multiset in every recipe.
func c08Builds(c *vk.Ctx, r *rand.Rand, docs []*model.Doc) []*c08Build {
	var out []*c08Build
	fail := func(recipe string, err error) {
		c.Violate("build-failed:"+recipe, fmt.Sprintf("recipe %s failed on %d documents: %v", recipe, len(docs), err), map[string]interface{}{"docs": docs})
	}
	writeAll := func(w *bluge.Writer, sizes func() int) error {
		i := 0
		for i < len(docs) {
			n := sizes()
			b := bluge.NewBatch()
			for j := 0; j < n && i < len(docs); j++ {
				b.Insert(docs[i].ToBluge())
				i++
			}
			if err := w.Batch(b); err != nil {
				return err
			}
		}
		if len(docs) == 0 {
			return w.Batch(bluge.NewBatch())
		}
		return nil
	}
	fromWriter := func(name string, cfg bluge.Config, sizes func() int, merged bool, dir string) {
		w, err := bluge.OpenWriter(cfg)
		if err != nil {
			fail(name, err)
			return
		}
		if err := writeAll(w, sizes); err != nil {
			fail(name, err)
			_ = w.Close()
			return
		}
		if merged {
			waitQuiet(w)
		}
		rd, err := w.Reader()
		if err != nil {
			fail(name, err)
			_ = w.Close()
			return
		}
		segs, pend := layoutOf(rd)
		out = append(out, &c08Build{name: name, readers: []*bluge.Reader{rd}, merged: merged, pending: pend, segments: segs,
			clean: func() { _ = rd.Close(); _ = w.Close() }})
	}
	one := func() int { return 1 }
	all := func() int { return len(docs) + 1 }
	rnd := func() int { return 1 + r.Intn(5) }

	// 0 reference: one batch, in memory
	fromWriter("mem-onebatch", bx.NoMerge(bluge.InMemoryOnlyConfig()), all, false, "")
	// 1 one document per batch
	fromWriter("mem-perdoc", bx.NoMerge(bluge.InMemoryOnlyConfig()), one, false, "")
	// 2 ice v2 segments
	fromWriter("mem-v2-random", bx.NoMerge(bluge.InMemoryOnlyConfig().WithSegmentVersion(2)), rnd, false, "")
	// 3..5 each optimisation switched off
	fromWriter("mem-noopt-conj", bx.NoMerge(bluge.InMemoryOnlyConfig().DisableOptimizeConjunction()), rnd, false, "")
	fromWriter("mem-noopt-conj-unadorned", bx.NoMerge(bluge.InMemoryOnlyConfig().DisableOptimizeConjunctionUnadorned()), rnd, false, "")
	fromWriter("mem-noopt-disj-unadorned", bx.NoMerge(bluge.InMemoryOnlyConfig().DisableOptimizeDisjunctionUnadorned()), rnd, false, "")
	// 6 merge-happy in memory and on disk (merged segments)
	fromWriter("mem-mergehappy", bx.MergeHappy(bluge.InMemoryOnlyConfig(), true), rnd, true, "")
	{
		dir := c.TempDir("c08-mh-")
		fromWriter("fs-mergehappy", bx.MergeHappy(bluge.DefaultConfig(dir), r.Intn(2) == 0), one, true, dir)
	}
	// 7 on disk, random partition, closed and read back with OpenReader
	{
		dir := c.TempDir("c08-fs-")
		cfg := bx.NoMerge(bluge.DefaultConfig(dir))
		w, err := bluge.OpenWriter(cfg)
		if err != nil {
			fail("fs-openreader", err)
		} else {
			err = writeAll(w, rnd)
			if err2 := w.Close(); err == nil {
				err = err2
			}
			if err != nil {
				fail("fs-openreader", err)
			} else if rd, err := bluge.OpenReader(cfg); err != nil {
				fail("fs-openreader", err)
			} else {
				segs, pend := layoutOf(rd)
				out = append(out, &c08Build{name: "fs-openreader", readers: []*bluge.Reader{rd}, pending: pend, segments: segs, clean: func() { _ = rd.Close() }})
				// 8 the same directory reopened by a writer
				if w2, err := bluge.OpenWriter(cfg); err != nil {
					fail("fs-reopen-writer", err)
				} else if rd2, err := w2.Reader(); err != nil {
					fail("fs-reopen-writer", err)
					_ = w2.Close()
				} else {
					segs, pend := layoutOf(rd2)
					out = append(out, &c08Build{name: "fs-reopen-writer", readers: []*bluge.Reader{rd2}, pending: pend, segments: segs, clean: func() { _ = rd2.Close(); _ = w2.Close() }})
				}
			}
		}
	}
	// 9 v2 + merge-happy + Backup + OpenReader on the backup
	{
		dir, bdir := c.TempDir("c08-bk-"), c.TempDir("c08-bkdst-")
		cfg := bx.MergeHappy(bluge.DefaultConfig(dir).WithSegmentVersion(2), false)
		w, err := bluge.OpenWriter(cfg)
		if err != nil {
			fail("backup", err)
		} else {
			err = writeAll(w, func() int { return 2 })
			waitQuiet(w)
			var rd0 *bluge.Reader
			if err == nil {
				rd0, err = w.Reader()
			}
			if err == nil {
				err = rd0.Backup(bdir, nil)
				_ = rd0.Close()
			}
			_ = w.Close()
			if err != nil {
				fail("backup", err)
			} else if rd, err := bluge.OpenReader(bluge.DefaultConfig(bdir).WithSegmentVersion(2)); err != nil {
				fail("backup", err)
			} else {
				segs, pend := layoutOf(rd)
				out = append(out, &c08Build{name: "backup-openreader", readers: []*bluge.Reader{rd}, merged: true, pending: pend, segments: segs, clean: func() { _ = rd.Close() }})
			}
		}
	}
	// 10 offline writer, any batch size
	{
		dir := c.TempDir("c08-off-")
		cfg := bluge.DefaultConfig(dir)
		bs := 1 + r.Intn(len(docs)+2)
		err, _, panicked := bx.Guarded(func() error {
			ow, err := bluge.OpenOfflineWriter(cfg, bs, 2+r.Intn(9))
			if err != nil {
				return err
			}
			for _, d := range docs {
				if err := ow.Insert(d.ToBluge()); err != nil {
					return err
				}
			}
			return ow.Close()
		})
		if panicked != "" {
			key := "offline-writer-panic"
			if len(docs) == 0 {
				key = "offline-writer-panic:empty-corpus"
			}
			c.Violate(key, fmt.Sprintf("OfflineWriter (batch size %d, %d documents) panicked: %s", bs, len(docs), firstLines(panicked, 8)), map[string]interface{}{"docs": docs, "batchSize": bs})
		} else if err != nil {
			fail("offline", err)
		} else if rd, err := bluge.OpenReader(cfg); err != nil {
			fail("offline", err)
		} else {
			segs, pend := layoutOf(rd)
			out = append(out, &c08Build{name: "offline", readers: []*bluge.Reader{rd}, merged: true, pending: pend, segments: segs, clean: func() { _ = rd.Close() }})
		}
	}
	// 10b a MERGED segment followed by never-merged ones: the first part goes through the offline writer
	// (merged segments carry the compact one-hit postings), the rest is appended by an ordinary writer
	if len(docs) >= 2 {
		dir := c.TempDir("c08-offapp-")
		cfg := bx.NoMerge(bluge.DefaultConfig(dir))
		cut := 1 + r.Intn(len(docs)-1)
		err, _, panicked := bx.Guarded(func() error {
			ow, err := bluge.OpenOfflineWriter(bluge.DefaultConfig(dir), 1+r.Intn(cut), 2+r.Intn(4))
			if err != nil {
				return err
			}
			for _, d := range docs[:cut] {
				if err := ow.Insert(d.ToBluge()); err != nil {
					return err
				}
			}
			return ow.Close()
		})
		if panicked != "" || err != nil {
			fail("offline-then-append", fmt.Errorf("%v %s", err, firstLines(panicked, 6)))
		} else if w, err := bluge.OpenWriter(cfg); err != nil {
			fail("offline-then-append", err)
		} else {
			var e error
			for i := cut; i < len(docs) && e == nil; {
				b := bluge.NewBatch()
				for n := 1 + r.Intn(4); n > 0 && i < len(docs); n-- {
					b.Insert(docs[i].ToBluge())
					i++
				}
				e = w.Batch(b)
			}
			rd, err := w.Reader()
			if e != nil || err != nil {
				fail("offline-then-append", fmt.Errorf("%v %v", e, err))
				_ = w.Close()
			} else {
				segs, pend := layoutOf(rd)
				out = append(out, &c08Build{name: "offline-then-append", readers: []*bluge.Reader{rd}, merged: true, pending: pend, segments: segs, clean: func() { _ = rd.Close(); _ = w.Close() }})
			}
		}
	}
	// 11 history with junk documents inserted and deleted again (pending deletions), updates of real ones
	{
		w, err := bluge.OpenWriter(bx.NoMerge(bluge.InMemoryOnlyConfig()))
		if err != nil {
			fail("mem-history", err)
		} else {
			var e error
			b := bluge.NewBatch()
			for i, d := range docs {
				// an older version first, replaced later
				if i%3 == 0 {
					old := *d
					old.V = "old-" + d.V
					old.Text = map[string]string{"t": "zzz a b"}
					b.Update(bluge.Identifier(d.ID), old.ToBluge())
				}
				if i%4 == 0 {
					junk := &model.Doc{ID: fmt.Sprintf("junk%d", i), V: "junk", Text: map[string]string{"t": "a b c"}, Kw: map[string][]string{"k": {"a"}}, Num: map[string][]float64{"n": {1}}}
					b.Insert(junk.ToBluge())
				}
			}
			e = w.Batch(b)
			b = bluge.NewBatch()
			for i, d := range docs {
				b.Update(bluge.Identifier(d.ID), d.ToBluge())
				if i%4 == 0 {
					b.Delete(bluge.Identifier(fmt.Sprintf("junk%d", i)))
				}
				if i%5 == 4 {
					if e == nil {
						e = w.Batch(b)
					}
					b = bluge.NewBatch()
				}
			}
			if e == nil {
				e = w.Batch(b)
			}
			rd, err := w.Reader()
			if e != nil || err != nil {
				fail("mem-history", fmt.Errorf("%v %v", e, err))
				_ = w.Close()
			} else {
				segs, pend := layoutOf(rd)
				out = append(out, &c08Build{name: "mem-history-with-deletes", readers: []*bluge.Reader{rd}, pending: pend, segments: segs, noScore: true, clean: func() { _ = rd.Close(); _ = w.Close() }})
			}
		}
	}
	// 11b the same kind of history (older versions replaced, junk inserted and deleted) under merge-happy
	// options, one small batch at a time: merges run over segments that carry deletions and the reader is
	// taken right after the background work settled, with no further batch (merged segments beside
	// surviving ones that still have pending deletions)
	{
		dir := c.TempDir("c08-mhh-")
		mem := r.Intn(2) == 0
		var cfg bluge.Config
		if mem {
			cfg = bx.MergeHappy(bluge.InMemoryOnlyConfig(), true)
		} else {
			cfg = bx.MergeHappy(bluge.DefaultConfig(dir), r.Intn(2) == 0)
		}
		w, err := bluge.OpenWriter(cfg)
		if err != nil {
			fail("mergehappy-history", err)
		} else {
			var e error
			for i, d := range docs {
				b := bluge.NewBatch()
				if i%2 == 0 {
					old := *d
					old.V = "old-" + d.V
					old.Text = map[string]string{"t": "zzz a b"}
					b.Update(bluge.Identifier(d.ID), old.ToBluge())
				}
				if i%3 == 0 {
					junk := &model.Doc{ID: fmt.Sprintf("junk%d", i), V: "junk", Text: map[string]string{"t": "a b c"}, Kw: map[string][]string{"k": {"a"}}, Num: map[string][]float64{"n": {1}}}
					b.Insert(junk.ToBluge())
				}
				if e == nil && (i%2 == 0 || i%3 == 0) {
					e = w.Batch(b)
				}
			}
			for i, d := range docs {
				b := bluge.NewBatch()
				b.Update(bluge.Identifier(d.ID), d.ToBluge())
				if i%3 == 0 {
					b.Delete(bluge.Identifier(fmt.Sprintf("junk%d", i)))
				}
				if e == nil {
					e = w.Batch(b)
				}
				if i%4 == 3 {
					waitQuiet(w) // let merges finish in between, so that later deletions hit merged segments
				}
			}
			if len(docs) == 0 && e == nil {
				e = w.Batch(bluge.NewBatch())
			}
			waitQuiet(w)
			rd, err := w.Reader()
			if e != nil || err != nil {
				fail("mergehappy-history", fmt.Errorf("%v %v", e, err))
				_ = w.Close()
			} else {
				segs, pend := layoutOf(rd)
				out = append(out, &c08Build{name: "mergehappy-history-with-deletes", readers: []*bluge.Reader{rd}, merged: true, pending: pend, segments: segs, noScore: true, clean: func() { _ = rd.Close(); _ = w.Close() }})
			}
		}
	}
	// 12 the corpus partitioned over k indexes, searched with MultiSearch
	if len(docs) > 0 {
		k := 2 + r.Intn(3)
		b := &c08Build{name: fmt.Sprintf("multisearch-%d", k), noScore: true}
		var ws []*bluge.Writer
		ok := true
		for p := 0; p < k; p++ {
			w, err := bluge.OpenWriter(bx.NoMerge(bluge.InMemoryOnlyConfig()))
			if err != nil {
				ok = false
				break
			}
			ws = append(ws, w)
			bb := bluge.NewBatch()
			for i, d := range docs {
				if i%k == p {
					bb.Insert(d.ToBluge())
				}
			}
			if err := w.Batch(bb); err != nil {
				ok = false
			}
			rd, err := w.Reader()
			if err != nil {
				ok = false
				break
			}
			b.readers = append(b.readers, rd)
			b.segments++
		}
		b.clean = func() {
			for _, rd := range b.readers {
				_ = rd.Close()
			}
			for _, w := range ws {
				_ = w.Close()
			}
		}
		if ok {
			out = append(out, b)
		} else {
			b.clean()
			fail("multisearch", fmt.Errorf("could not build partitions"))
		}
	}
	return out
}

func c08Corpus(c *vk.Ctx, i int) {
	r := rand.New(rand.NewSource(vk.SubSeed(c.Seed, fmt.Sprintf("c08-%d", i))))
	co := model.GenCorpus(r, model.CorpusOpts{MaxDocs: 30, MultiValue: i%2 == 0})
	docs := co.Final.Docs
	if i%9 == 0 {
		docs = nil // the empty corpus
	}
	byV := map[string]*model.Doc{}
	for _, d := range docs {
		byV[d.V] = d
		// keep float sums exact, so that they cannot depend on the order in which a layout
		// delivers the values (huge magnitudes cancel order-dependently; -0 and +0 compare equal)
		for f, vs := range d.Num {
			for j, v := range vs {
				switch {
				case v > 1e6:
					vs[j] = 1000 + float64(j)
				case v < -1e6:
					vs[j] = -1000 - float64(j)
				case v == 0:
					vs[j] = 0
				case v > 0 && v < 1e-300:
					vs[j] = 0.25
				default:
					// dyadic values: sums of a few hundred of them are exact in any order
					vs[j] = math.Round(v*1024) / 1024
					if vs[j] == 0 {
						vs[j] = 0
					}
				}
			}
			d.Num[f] = vs
		}
	}
	builds := c08Builds(c, r, docs)
	defer func() {
		for _, b := range builds {
			b.clean()
		}
	}()
	if len(builds) == 0 || builds[0].name != "mem-onebatch" {
		return
	}
	ref := builds[0]
	for _, b := range builds {
		c.Event("build_"+strings.Split(b.name, "-")[0], 1)
		if b.merged {
			c.Event("builds_with_merged_segments", 1)
		}
		if b.pending {
			c.Event("builds_with_pending_deletions", 1)
		}
	}
	nReq := c.Pick(10, 16)
	forms := []string{"score", "all", "sort-k", "sort-n", "sort-d-id", "sort-id"}
	for qn := 0; qn < nReq; qn++ {
		q := model.GenQuery(r, co, model.QueryOpts{Kinds: []string{"term", "term", "match", "matchphrase", "prefix", "wildcard", "fuzzy", "termrange", "numrange", "daterange", "all", "kwterm", "idterm", "multiphrase", "regexp"}}, 2)
		if q.Kind == "fuzzy" && q.Fuzz == 0 {
			q.Fuzz = 1
		}
		form := forms[(qn+i)%len(forms)]
		wit := func(b *c08Build) map[string]interface{} {
			return map[string]interface{}{"docs": docs, "query": q, "form": form, "build": b.name, "reference": ref.name}
		}
		ra := c08Ask(ref, c08Request(q, form, false), form, byV)
		c.Eval(1)
		if ra.err != "" {
			if ra.err != bx.ErrStepLimit.Error() {
				c.Violate("reference-search-error", ra.err, wit(ref))
			}
			continue
		}
		// the same request with scoring switched off must select the same documents
		if form != "all" {
			na := c08Ask(ref, c08Request(q, form, true), form, byV)
			c.Eval(1)
			if na.err == "" && fmt.Sprint(na.ids) != fmt.Sprint(ra.ids) {
				key := "score-none-changes-match-set"
				c.Violate(key, fmt.Sprintf("query %s: with scoring %v, with score mode none %v", q, ra.ids, na.ids), wit(ref))
			} else {
				c.Event("score_none_comparisons", 1)
			}
		}
		for _, b := range builds[1:] {
			if len(b.readers) > 1 && form != "sort-id" && form != "sort-d-id" {
				continue // MultiSearch is judged under a field sort
			}
			ba := c08Ask(b, c08Request(q, form, false), form, byV)
			c.Eval(1)
			if ba.err != "" {
				c.Violate("search-error:"+b.name, fmt.Sprintf("query %s on build %s: %s", q, b.name, ba.err), wit(b))
				continue
			}
			pairKey := "differs:" + strings.SplitN(b.name, "-", 2)[0] + ":" + b.name
			if fmt.Sprint(ba.ids) != fmt.Sprint(ra.ids) {
				c.Violate(pairKey+":match-set", fmt.Sprintf("query %s (%s): %s answers %v, %s answers %v", q, form, ref.name, ra.ids, b.name, ba.ids), wit(b))
				continue
			}
			if fmt.Sprint(ba.stored) != fmt.Sprint(ra.stored) {
				c.Violate(pairKey+":stored-fields", fmt.Sprintf("query %s: stored fields differ between %s and %s", q, ref.name, b.name), wit(b))
				continue
			}
			if strings.HasPrefix(form, "sort-") && fmt.Sprint(ba.groups) != fmt.Sprint(ra.groups) {
				c.Violate(pairKey+":sort-order", fmt.Sprintf("query %s (%s): order of distinct sort keys differs: %v vs %v", q, form, ra.groups, ba.groups), wit(b))
				continue
			}
			if ba.aggs != ra.aggs {
				c.Violate(pairKey+":aggregations", fmt.Sprintf("query %s: aggregations %q vs %q", q, ra.aggs, ba.aggs), wit(b))
				continue
			}
			if !b.noScore && !b.pending && !ref.pending && len(b.readers) == 1 {
				diff := ""
				for k, s := range ra.scores {
					if !relClose(s, ba.scores[k], 1e-12) {
						diff = fmt.Sprintf("%s: %v vs %v", k, s, ba.scores[k])
						break
					}
				}
				if diff != "" {
					if b.merged {
						c.Violate("scores-differ-on-merged-build", fmt.Sprintf("query %s: %s vs %s: %s", q, ref.name, b.name, diff), wit(b))
					} else {
						c.Violate(pairKey+":scores", fmt.Sprintf("query %s: %s vs %s: %s", q, ref.name, b.name, diff), wit(b))
					}
					continue
				}
				if !b.merged {
					c.Event("score_comparisons_unmerged", 1)
				}
			}
			// the unscored paths (unadorned optimisations work on the segments' raw postings) on this layout
			if form != "all" && len(b.readers) == 1 {
				nb := c08Ask(b, c08Request(q, form, true), form, byV)
				c.Eval(1)
				if nb.err != "" {
					c.Violate("search-error:"+b.name, fmt.Sprintf("query %s (score mode none) on build %s: %s", q, b.name, nb.err), wit(b))
					continue
				}
				if fmt.Sprint(nb.ids) != fmt.Sprint(ra.ids) {
					c.Violate(pairKey+":match-set-score-none", fmt.Sprintf("query %s (%s, score mode none): %s answers %v, %s answers %v", q, form, ref.name, ra.ids, b.name, nb.ids), wit(b))
					continue
				}
				c.Event("score_none_layout_comparisons", 1)
			}
			if len(ra.ids) > 0 && b.segments != ref.segments {
				c.Distinct(fmt.Sprintf("%s|%s|%s", b.name, form, q.Kind))
			}
			c.Event("pair_comparisons", 1)
		}
	}
	if i < 2 {
		var names []string
		for _, b := range builds {
			names = append(names, fmt.Sprintf("%s(%d segments)", b.name, b.segments))
		}
		c.Sample(map[string]interface{}{"documents": len(docs), "builds": names})
	}
	if len(docs) == 0 {
		c.Event("empty_corpora", 1)
	}
}

var _ = index.ItemKindSegment

// c08OfflineSweep: the offline writer over EVERY number of flushed segments in a range (one tiny document
// per flush) and several merge fan-ins: the index it leaves must hold exactly the inserted documents.
func c08OfflineSweep(c *vk.Ctx) {
	type job struct{ n, fanIn int }
	var jobs []job
	for n := 1; n <= c.Pick(100, 260); n++ {
		jobs = append(jobs, job{n, 10})
	}
	for _, f := range []int{2, 3, 5, 7} {
		for n := 1; n <= c.Pick(40, 120); n++ {
			jobs = append(jobs, job{n, f})
		}
	}
	var wg sync.WaitGroup
	sem := make(chan struct{}, runtime.NumCPU())
	for _, j := range jobs {
		wg.Add(1)
		sem <- struct{}{}
		go func(j job) {
			defer wg.Done()
			defer func() { <-sem }()
			dir := c.TempDir("c08-sweep-")
			cfg := bluge.DefaultConfig(dir)
			err, _, panicked := bx.Guarded(func() error {
				ow, err := bluge.OpenOfflineWriter(cfg, 1, j.fanIn)
				if err != nil {
					return err
				}
				for k := 0; k < j.n; k++ {
					d := bluge.NewDocument(fmt.Sprintf("s%04d", k)).AddField(bluge.NewKeywordField("k", fmt.Sprintf("v%d", k%7)))
					if err := ow.Insert(d); err != nil {
						return err
					}
				}
				return ow.Close()
			})
			c.Eval(1)
			c.Event("offline_sweep_builds", 1)
			wit := map[string]interface{}{"documents": j.n, "batch_size": 1, "max_segments_per_merge": j.fanIn}
			if panicked != "" || err != nil {
				c.Violate("build-failed:offline-sweep", fmt.Sprintf("%d one-document flushes, fan-in %d: %v %s", j.n, j.fanIn, err, firstLines(panicked, 6)), wit)
				return
			}
			rd, err := bluge.OpenReader(cfg)
			if err != nil {
				c.Violate("build-failed:offline-sweep", fmt.Sprintf("%d one-document flushes, fan-in %d: OpenReader: %v", j.n, j.fanIn, err), wit)
				return
			}
			defer rd.Close()
			hits, _, err := bx.SafeCollect(rd, bluge.NewAllMatches(bluge.NewMatchAllQuery()), false)
			seen := map[string]bool{}
			for _, h := range hits {
				seen[h.ID] = true
			}
			if err != nil || len(hits) != j.n || len(seen) != j.n {
				c.Violate("differs:offline:offline-sweep:match-set", fmt.Sprintf("OfflineWriter, %d documents inserted one per flush, merges of up to %d segments: the index holds %d documents (%d distinct ids, err %v)", j.n, j.fanIn, len(hits), len(seen), err), wit)
				return
			}
			c.Distinct(fmt.Sprintf("offline-sweep|%d|%d", j.n, j.fanIn))
		}(j)
	}
	wg.Wait()
}

func runC08(c *vk.Ctx) {
	c.Rule("generated corpora (including the empty one) built by 14 recipes (one batch; one doc per batch; ice v2; each optimisation off; merge-happy in memory and on disk; close + OpenReader; reopened writer; v2 + merges + Backup + OpenReader; OfflineWriter with any batch size; OfflineWriter for a prefix then ordinary batches appended (merged segment before un-merged ones); history with junk inserts, updates and deletes; partition over k indexes + MultiSearch) x generated queries x 6 request forms (score order, all-matches, four field sorts), each also with score mode none on every layout; " +
		"every build's answer compared with the one-batch build: id multiset, stored fields, order of distinct sort keys (tie groups as sets), aggregations, and scores where neither build has merged segments or pending deletions; " +
		"distinct non-trivial = distinct (recipe, request form, query kind) with a non-empty result on a physically different layout")
	c.Assume("ties under a field sort are broken by index order, which is layout: only the order of distinct keys is compared",
		"terms aggregation asked with a size above the vocabulary, so bucket selection at the cut cannot differ",
		"scores on builds with merged segments are compared too, and their difference is the listed known finding (the segment library rewrites field-length statistics when merging)",
		"MultiSearch is judged under field sorts only (scores depend on per-index statistics)")
	nCorp := c.Pick(108, 2500)
	workers := runtime.NumCPU()
	var wg sync.WaitGroup
	for w := 0; w < workers; w++ {
		wg.Add(1)
		go func(w int) {
			defer wg.Done()
			for i := w; i < nCorp; i += workers {
				c08Corpus(c, i)
				c.Event("corpora", 1)
			}
		}(w)
	}
	wg.Wait()
	c08OfflineSweep(c)
	c.Require("offline_sweep_builds", 100)
	c.Require("pair_comparisons", 500)
	c.Require("builds_with_merged_segments", 10)
	c.Require("score_comparisons_unmerged", 100)
	c.Require("empty_corpora", 1)
}
