package checks

import (
	"encoding/json"
	"fmt"
	"math/rand"
	"os"
	"path/filepath"
	"regexp"
	"runtime"
	"runtime/pprof"
	"sort"
	"strings"
	"sync"
	"sync/atomic"
	"time"

	"github.com/blugelabs/bluge"
	"github.com/blugelabs/bluge/index"
	"github.com/blugelabs/bluge/search"
	"github.com/blugelabs/bluge/search/aggregations"

	"verif/harness/bx"
	"verif/harness/model"
	"verif/harness/mon"
	"verif/harness/vk"
)

func init() {
	register(&Check{ID: "C15", Level: "exploration", Run: runC15})
	vk.RegisterChild("c15run", c15Child)
}

type c15Case struct {
	Seed       int64
	Dir        string
	Writers    int
	Readers    int
	Procs      int
	Unsafe     bool
	MemMerge   bool
	StatsInCB  bool // sub-workload: Stats()/MemoryUsed() from the event call-back
	SegVer     int  // 2 = the ice v2 probe (reported separately)
	RaceLogDir string
	NapUnderFiles int `json:",omitempty"` // >0: the persister waits for a lagging merger once the directory holds this many files
	CloseGate  string // "": close whenever; else hold a background goroutine at this point, start Close, let it go
}

type c15Result struct {
	Ops          map[string]int
	CloseSeconds float64
	CloseStuck   string // goroutine dumps when Close did not return
	Deadlock     bool
	Spinning     string // Close did not return and this writer goroutine was busy in the same function in seven looks over two minutes
	ReopenErr    string
	ReopenDiff   string
	Errors       []string
	Signature    string
}

func c15Child(in json.RawMessage) (interface{}, error) {
	var cs c15Case
	if err := json.Unmarshal(in, &cs); err != nil {
		return nil, err
	}
	runtime.GOMAXPROCS(cs.Procs)
	res := &c15Result{Ops: map[string]int{}}
	var opMu sync.Mutex
	op := func(k string) {
		opMu.Lock()
		res.Ops[k]++
		opMu.Unlock()
	}
	fail := func(s string) {
		opMu.Lock()
		if len(res.Errors) < 10 {
			res.Errors = append(res.Errors, s)
		}
		opMu.Unlock()
	}
	freshDir(cs.Dir) // (a case can be run a second time by the child runner)
	rg := newRig(rigOpts{Dir: cs.Dir, Merge: "happy", MemMerge: cs.MemMerge, Unsafe: cs.Unsafe, Seed: cs.Seed | 1, SegVer: cs.SegVer, NapUnderFiles: cs.NapUnderFiles})
	if cs.StatsInCB {
		cb := rg.Sched.EventCallback()
		rg.Cfg = bx.WithIC(rg.Cfg, func(ic *index.Config) {
			ic.EventCallback = func(e index.Event) {
				if e.Chill != nil {
					_ = e.Chill.Stats()
					_ = e.Chill.MemoryUsed()
				}
				cb(e)
			}
		})
	}
	mon.SetYieldGate(rg.Sched.GateOnly)
	defer mon.SetYieldGate(nil)
	w, err := bluge.OpenWriter(rg.Cfg)
	if err != nil {
		return nil, err
	}
	// per-writer disjoint id spaces so that the final content is known without a linearization
	finals := make([]map[string]string, cs.Writers)
	// unsafe mode: the state of the writer's id space after each of its batches, and how many of its batches
	// are known to be on disk (persisted call-back with a nil error)
	states := make([][]string, cs.Writers)
	persistedUpTo := make([]int32, cs.Writers)
	// unsafe mode only (safe batchers would wait for the held persister): the persister is stopped right
	// after it has written its n-th snapshot file, the batchers go on and finish (their batches stay in
	// memory), then Close is started and the persister let go: what is on disk is that snapshot file
	var preHold *mon.Hold
	if cs.CloseGate == "after-snp" && cs.Unsafe {
		preHold = rg.Sched.HoldNth(int(uint64(cs.Seed)%3), func(p mon.Point) bool {
			return p.Name == "persist.end" && p.Kind == ".snp" && p.Role == "persister"
		})
	}
	var wg sync.WaitGroup
	stopReaders := int32(0)
	for wi := 0; wi < cs.Writers; wi++ {
		finals[wi] = map[string]string{}
		states[wi] = []string{"[]"}
		wg.Add(1)
		go func(wi int) {
			defer wg.Done()
			r := rand.New(rand.NewSource(cs.Seed + int64(wi)*7919))
			for k := 0; k < 14; k++ {
				b := &model.Batch{}
				for x := 0; x < 1+r.Intn(3); x++ {
					id := fmt.Sprintf("w%dk%d", wi, r.Intn(4))
					dup := false
					for _, o := range b.Ops {
						if o.ID == id {
							dup = true
						}
					}
					if dup {
						continue
					}
					if r.Intn(5) == 0 {
						b.Ops = append(b.Ops, model.Op{Kind: "delete", ID: id})
						delete(finals[wi], id)
					} else {
						v := fmt.Sprintf("w%d-%d-%d", wi, k, x)
						b.Ops = append(b.Ops, model.Op{Kind: "update", ID: id, Doc: &model.Doc{ID: id, V: v, Text: map[string]string{"t": fmt.Sprintf("alpha beta w%d x%d", wi, r.Intn(3))},
							Kw: map[string][]string{"k": {fmt.Sprintf("g%d", r.Intn(3))}}, Num: map[string][]float64{"n": {float64(r.Intn(10))}}}})
						finals[wi][id] = v
					}
				}
				var st []string
				for id, v := range finals[wi] {
					st = append(st, id+"="+v)
				}
				sort.Strings(st)
				states[wi] = append(states[wi], fmt.Sprint(st))
				rb := b.ToBluge()
				if cs.Unsafe {
					nth := int32(k + 1)
					rb.SetPersistedCallback(func(err error) {
						if err != nil {
							return
						}
						for {
							cur := atomic.LoadInt32(&persistedUpTo[wi])
							if cur >= nth || atomic.CompareAndSwapInt32(&persistedUpTo[wi], cur, nth) {
								return
							}
						}
					})
				}
				if err := w.Batch(rb); err != nil {
					fail(fmt.Sprintf("writer %d batch %d: %v", wi, k, err))
				}
				op("batch")
			}
		}(wi)
	}
	var rwg sync.WaitGroup
	for ri := 0; ri < cs.Readers; ri++ {
		rwg.Add(1)
		go func(ri int) {
			defer rwg.Done()
			r := rand.New(rand.NewSource(cs.Seed ^ int64(ri+1)*104729))
			for atomic.LoadInt32(&stopReaders) == 0 {
				rd, err := w.Reader()
				if err != nil {
					return // writer closed
				}
				op("reader")
				nPar := 3 + r.Intn(6)
				var sg sync.WaitGroup
				for s := 0; s < nPar; s++ {
					sg.Add(1)
					kind := r.Intn(7)
					go func(kind int) {
						defer sg.Done()
						T := func(s string) bluge.Query { return bluge.NewTermQuery(s).SetField("t") }
						var req bluge.SearchRequest
						switch kind {
						case 0:
							req = bluge.NewTopNSearch(10, T("alpha"))
						case 1:
							req = bluge.NewTopNSearch(10, bluge.NewBooleanQuery().AddMust(T("alpha"), T("beta")))
						case 2:
							req = bluge.NewTopNSearch(10, bluge.NewBooleanQuery().AddMust(T("alpha"), T("beta"))).SetScore("none")
						case 3:
							req = bluge.NewTopNSearch(10, bluge.NewBooleanQuery().AddShould(T("x0"), T("x1"), T("w0")).SetMinShould(1)).SetScore("none")
						case 4:
							req = bluge.NewTopNSearch(10, bluge.NewMatchPhraseQuery("alpha beta").SetField("t").SetAnalyzer(model.Analyzer()))
						case 5:
							tn := bluge.NewTopNSearch(5, bluge.NewMatchAllQuery()).SortBy([]string{"k", "-n", "_id"})
							tn.AddAggregation("terms", aggregations.NewTermsAggregation(search.Field("k"), 5))
							tn.AddAggregation("sum", aggregations.Sum(search.Field("n")))
							req = tn
						default:
							req = bluge.NewAllMatches(bluge.NewBooleanQuery().AddShould(T("x0"), T("x2")))
						}
						if _, _, err := bx.SafeCollect(rd, req, kind%2 == 0); err != nil {
							fail("search: " + err.Error())
						}
						op("search")
					}(kind)
				}
				sg.Wait()
				_ = rd.Close()
			}
		}(ri)
	}
	wg.Wait() // all Batch callers have returned
	atomic.StoreInt32(&stopReaders, 1)
	if cs.Seed%3 != 0 {
		rwg.Wait() // otherwise readers are still searching while the writer closes
	}
	// Close placed inside a background step: the goroutine is held at the step, Close is started (it
	// signals the background goroutines and waits for them), then the goroutine is let go and finds the
	// writer closing half-way through its hand-over
	var gateHold *mon.Hold
	if preHold != nil {
		if preHold.Reached(1500 * time.Millisecond) {
			gateHold = preHold
			op("close_right_after_a_snapshot_file_with_newer_batches_in_memory")
		} else {
			preHold.Release()
		}
	} else if cs.CloseGate != "" {
		pred := map[string]func(p mon.Point) bool{
			// the merger just before it hands its merge to the introducer; in the yield build instead the
			// introducer at any yield point inside introduceMerge (the merge is handed over, not yet answered)
			"merge-intro": func(p mon.Point) bool {
				if mon.YieldEnabled {
					return strings.HasPrefix(p.Name, "y:") && strings.Contains(p.Stack, ").introduceMerge")
				}
				return p.Name == "ev:merge.intro.start"
			},
			"persist-intro": func(p mon.Point) bool {
				return strings.HasPrefix(p.Name, "y:") && strings.Contains(p.Stack, ").introducePersist")
			},
			"merge-begin": func(p mon.Point) bool { return p.Name == "merge.begin" && p.Role == "merger" },
			"persist-snp": func(p mon.Point) bool { return p.Name == "persist.begin" && p.Kind == ".snp" },
			"load-seg":    func(p mon.Point) bool { return p.Name == "load.end" && p.Kind == ".seg" },
		}[cs.CloseGate]
		if pred != nil {
			gateHold = rg.Sched.HoldNth(0, pred)
			if !gateHold.Reached(1500 * time.Millisecond) {
				gateHold.Release()
				gateHold = nil
			} else {
				op("close_inside_" + cs.CloseGate)
			}
		}
	}
	closeStart := time.Now()
	closed := make(chan error, 1)
	go func() { closed <- w.Close() }()
	if gateHold != nil {
		time.Sleep(20 * time.Millisecond)
		gateHold.Release()
	}
	closeReturned := func(err error) {
		if err != nil {
			fail("close: " + err.Error())
		}
		res.CloseSeconds = time.Since(closeStart).Seconds()
	}
	select {
	case err := <-closed:
		closeReturned(err)
	case <-time.After(40 * time.Second):
		d1 := goroutineDump()
		time.Sleep(3 * time.Second)
		d2 := goroutineDump()
		// deadlock of the shutdown: Close and every background goroutine of the writer are blocked on
		// channels / locks / wait groups, in the same place, in two dumps three seconds apart (goroutines
		// of the harness - readers that are still searching - do not matter for this)
		s1, ok1 := writerGoroutines(d1)
		s2, ok2 := writerGoroutines(d2)
		res.Deadlock = ok1 && ok2 && s1 == s2 && s1 != ""
		done := false
		if !res.Deadlock {
			// not a deadlock: Close is slow, or a goroutine of the writer runs without getting anywhere. The
			// wait goes on for two more minutes; every 20 s the writer goroutines that are NOT blocked are
			// looked up: the same goroutine busy in the same function of package index in all seven looks,
			// with Close still waiting, is a shutdown that spins (a slow one moves on)
			spin := busyWriterFrames(d2)
			same := spin != ""
			for k := 0; k < 6 && !done; k++ {
				select {
				case err := <-closed:
					closeReturned(err)
					done = true
				case <-time.After(20 * time.Second):
					if f := busyWriterFrames(goroutineDump()); f != spin {
						same = false
					}
				}
			}
			if !done && same {
				res.Spinning = spin
			}
		}
		if !done {
			res.CloseStuck = d1
			return res, nil
		}
	}
	rwg.Wait()
	res.Signature = fmt.Sprintf("%016x", vk.Hash64(rg.Sched.Signature(400)))
	// reopen: everything acknowledged is there (safe mode: every batch)
	rd, err := bluge.OpenReader(fsConfig(cs.Dir, fsOpts{Loader: "mmap", Merge: "none"}, nil))
	if err != nil {
		res.ReopenErr = err.Error()
		return res, nil
	}
	d, err := dumpReader(rd)
	_ = rd.Close()
	if err != nil {
		res.ReopenErr = err.Error()
		return res, nil
	}
	if !cs.Unsafe {
		var want []string
		for _, m := range finals {
			for id, v := range m {
				want = append(want, id+"="+v)
			}
		}
		sort.Strings(want)
		if fmt.Sprint(want) != fmt.Sprint(d) {
			res.ReopenDiff = fmt.Sprintf("reopened index shows %v, acknowledged batches give %v", d, want)
		}
	} else {
		// unsafe mode: the writers' id spaces are disjoint and each writer issues its batches one after the
		// other, so what is on disk, restricted to one writer's ids, is that writer's state after SOME number
		// of its batches - at least as many as were reported persisted before Close returned
		for wi := range states {
			var mine []string
			for _, e := range d {
				if strings.HasPrefix(e, fmt.Sprintf("w%dk", wi)) {
					mine = append(mine, e)
				}
			}
			got := fmt.Sprint(mine)
			if len(mine) == 0 {
				got = "[]"
			}
			from := int(atomic.LoadInt32(&persistedUpTo[wi]))
			ok := false
			for k := from; k < len(states[wi]); k++ {
				if states[wi][k] == got {
					ok = true
				}
			}
			op("unsafe_reopen_prefix_checks")
			if !ok {
				res.ReopenDiff = fmt.Sprintf("unsafe mode, writer %d: %d of its batches were reported persisted before Close returned; the reopened index shows %s for its ids, which is its state after none of its batches %d..%d (state after %d: %s; after all: %s)", wi, from, got, from, len(states[wi])-1, from, states[wi][from], states[wi][len(states[wi])-1])
				break
			}
		}
	}
	return res, nil
}

func goroutineDump() string {
	var sb strings.Builder
	_ = pprof.Lookup("goroutine").WriteTo(&sb, 2)
	return sb.String()
}

// writerGoroutines: signature (state + top frames) of the goroutines that run code of the index writer
// (Close, introducer, persister, merger, analysis workers are excluded); ok is false when one of them is
// not blocked on a channel, lock or wait group.
func writerGoroutines(dump string) (sig string, ok bool) {
	ok = true
	var l []string
	for _, blk := range strings.Split(dump, "\n\n") {
		if !strings.HasPrefix(blk, "goroutine ") || !strings.Contains(blk, "blugelabs/bluge/index.(*Writer).") || strings.Contains(blk, ".analysisWorker") {
			continue
		}
		lines := strings.Split(blk, "\n")
		state := lines[0]
		if i := strings.Index(state, "["); i >= 0 {
			state = strings.TrimSuffix(state[i+1:], "]:")
		}
		if i := strings.Index(state, ","); i >= 0 {
			state = state[:i] // drop "N minutes"
		}
		switch state {
		case "chan send", "chan receive", "select", "semacquire", "sync.WaitGroup.Wait", "sync.Mutex.Lock", "sync.RWMutex.Lock", "sync.RWMutex.RLock", "sync.Cond.Wait", "chan send (nil chan)", "chan receive (nil chan)", "select (no cases)":
		default:
			ok = false
		}
		var frames []string
		for _, ln := range lines[1:] {
			if strings.HasPrefix(ln, "\t") || strings.HasPrefix(ln, "created by") {
				continue
			}
			if i := strings.LastIndex(ln, "("); i > 0 {
				ln = ln[:i]
			}
			frames = append(frames, ln)
			if len(frames) == 4 {
				break
			}
		}
		l = append(l, state+"@"+strings.Join(frames, "<"))
	}
	sort.Strings(l)
	return strings.Join(l, ";"), ok
}

// busyWriterFrames: for every goroutine that runs code of the index writer and is NOT blocked on a channel,
// lock or wait group: the innermost function of package index on its stack (sorted, joined).
func busyWriterFrames(dump string) string {
	var l []string
	for _, blk := range strings.Split(dump, "\n\n") {
		if !strings.HasPrefix(blk, "goroutine ") || !strings.Contains(blk, "blugelabs/bluge/index.(*Writer).") || strings.Contains(blk, ".analysisWorker") {
			continue
		}
		lines := strings.Split(blk, "\n")
		state := lines[0]
		if i := strings.Index(state, "["); i >= 0 {
			state = strings.TrimSuffix(state[i+1:], "]:")
		}
		if i := strings.Index(state, ","); i >= 0 {
			state = state[:i]
		}
		switch state {
		case "chan send", "chan receive", "select", "semacquire", "sync.WaitGroup.Wait", "sync.Mutex.Lock", "sync.RWMutex.Lock", "sync.RWMutex.RLock", "sync.Cond.Wait", "chan send (nil chan)", "chan receive (nil chan)", "select (no cases)":
			continue
		}
		for _, ln := range lines[1:] {
			if strings.HasPrefix(ln, "\t") || strings.HasPrefix(ln, "created by") {
				continue
			}
			if strings.Contains(ln, "blugelabs/bluge/index.") {
				if i := strings.LastIndex(ln, "("); i > 0 {
					ln = ln[:i]
				}
				l = append(l, ln)
				break
			}
		}
	}
	sort.Strings(l)
	return strings.Join(l, ";")
}

var goroutineHeader = regexp.MustCompile(`(?m)^goroutine \d+ \[([^\]]+)\]:\n([^\n]+)`)

// blockedSignature: the multiset of (state, top frame) of all goroutines.
func blockedSignature(dump string) string {
	var l []string
	for _, m := range goroutineHeader.FindAllStringSubmatch(dump, -1) {
		st := m[1]
		if i := strings.Index(st, ","); i >= 0 {
			st = st[:i]
		}
		l = append(l, st+"@"+m[2])
	}
	sort.Strings(l)
	return strings.Join(l, ";")
}

// a frame line is "  pkg/path.(*T).Method()" - the name itself may hold parentheses
var frameRe = regexp.MustCompile(`(?m)^  (\S+)\(\)[ \t]*$`)

// parseRaceReports splits race detector logs into reports and keys each by its outermost
// bluge (or harness) entry points.
func parseRaceReports(dir string) (reports []string, keys []string) {
	files, _ := filepath.Glob(filepath.Join(dir, "race.*"))
	for _, f := range files {
		b, err := os.ReadFile(f)
		if err != nil {
			continue
		}
		for _, blk := range strings.Split(string(b), "==================") {
			if !strings.Contains(blk, "WARNING: DATA RACE") {
				continue
			}
			reports = append(reports, blk)
			// the two access stacks: take the innermost bluge frame of each
			var inner []string
			for _, part := range strings.Split(blk, "\n\n") {
				if !(strings.Contains(part, "Write at") || strings.Contains(part, "Read at") || strings.Contains(part, "Previous write at") || strings.Contains(part, "Previous read at") || strings.Contains(part, "atomic")) {
					continue
				}
				fn := ""
				for _, m := range frameRe.FindAllStringSubmatch(part, -1) {
					if strings.Contains(m[1], "blugelabs/bluge") {
						fn = m[1]
						break
					}
				}
				if fn == "" {
					for _, m := range frameRe.FindAllStringSubmatch(part, -1) {
						if strings.Contains(m[1], "verif/harness") {
							fn = m[1]
							break
						}
					}
				}
				if fn != "" {
					inner = append(inner, fn[strings.LastIndex(fn, "/")+1:])
				}
			}
			sort.Strings(inner)
			keys = append(keys, strings.Join(inner, "|"))
		}
	}
	return
}

func runC15(c *vk.Ctx) {
	c.Rule("child processes of the race-detector build (GORACE halt_on_error=0, log to file): 2..4 writer goroutines on disjoint id spaces (safe / unsafe), 1..3 reader goroutines each acquiring readers and running 3..8 parallel searches per reader (term, scored and unscored conjunction / disjunction so that all three optimisations and postings-iterator recycling run, phrase, sorted top-N with aggregations, stored-field loads), merge-happy options with seeded jitter and GOMAXPROCS in {1,2,4,16}; the writer is closed once all Batch callers returned, in one third of the runs while searches are still running; then the directory is reopened. " +
		"Race reports are parsed from the log, keyed by the innermost bluge frames of both accesses; Close not returning within 40 s is judged from two goroutine dumps. distinct non-trivial = distinct phase-order signatures of the background goroutines")
	c.Assume("a race report whose stacks hold bluge frames is a violation; one with harness frames only is a defect of the monitor and fails the check as well",
		"Close: deadlock only if two dumps 3 s apart show the same blocked goroutines; otherwise inconclusive")
	if !vk.RaceEnabled {
		c.Violate("harness-not-race-build", "C15 must run in the race-detector build (./run.sh C15 ...)", nil)
		return
	}
	n := c.Pick(20, 300)
	logDir := c.TempDir("racelogs-")
	var cases []interface{}
	for i := 0; i < n; i++ {
		gate := []string{"", "merge-intro", "merge-begin", "persist-intro", "persist-snp", "load-seg", "merge-intro"}[i%7]
		if i%8 == 3 {
			gate = "after-snp" // (an unsafe case)
		}
		nap := 0
		if gate == "merge-begin" || i%7 == 6 {
			nap = 6 // Close while the persister waits for the (held) merger to catch up
		}
		cases = append(cases, c15Case{Seed: vk.SubSeed(c.Seed, fmt.Sprintf("c15-%d", i)), Dir: c.TempDir("c15-"), Writers: 2 + i%3, Readers: 1 + i%3, Procs: []int{1, 2, 4, 16}[i%4],
			Unsafe: i%4 == 3, MemMerge: i%2 == 0 || (i%4 == 3 && i%16 != 15), StatsInCB: i%5 == 4, RaceLogDir: logDir,
			CloseGate: gate, NapUnderFiles: nap})
	}
	// the same workload on the second bundled segment format (two probe runs)
	for i := 0; i < 2; i++ {
		cases = append(cases, c15Case{Seed: vk.SubSeed(c.Seed, fmt.Sprintf("c15-v2-%d", i)), Dir: c.TempDir("c15-"), Writers: 2, Readers: 2, Procs: 16, MemMerge: i == 0, SegVer: 2, RaceLogDir: logDir})
	}
	results := vk.RunChildren(c.Scratch(), "c15run", cases, vk.ChildOpts{PerChild: 1, Parallel: runtime.NumCPU() / 2, CaseTimeout: 300 * time.Second,
		Env: []string{"GORACE=halt_on_error=0 log_path=" + filepath.Join(logDir, "race")}})
	for i, res := range results {
		cs := cases[i].(c15Case)
		c.Eval(1)
		c.Event("runs", 1)
		if res.Hung {
			c.Inconclusive("child-watchdog")
			continue
		}
		if cs.SegVer == 2 {
			// probe of the second bundled format: whatever goes wrong here is the shared stored-field buffer
			// of ice v2 segments (the race reports below name it); reported under one key
			c.Event("ice_v2_probe_runs", 1)
			var out c15Result
			bad := res.Faulted()
			if !bad && res.Out != nil && json.Unmarshal(res.Out, &out) == nil {
				bad = len(out.Errors) > 0 || out.ReopenDiff != "" || out.ReopenErr != ""
			}
			if bad {
				c.Violate("ice-v2-concurrent-stored-field-access", fmt.Sprintf("ice v2 probe: %s %v %s", firstLines(res.Panic+res.Died, 12), out.Errors, out.ReopenDiff), cs)
			}
			continue
		}
		if res.Faulted() {
			c.Violate("concurrent-use-kills-process", fmt.Sprintf("case %+v: %s", cs, firstLines(res.Panic+res.Died, 30)), cs)
			continue
		}
		var out c15Result
		if res.Out == nil || json.Unmarshal(res.Out, &out) != nil {
			c.Violate("harness-child", fmt.Sprintf("no result: %s", res.Err), cs)
			continue
		}
		for k, v := range out.Ops {
			c.Event("op_"+k, v)
		}
		for _, e := range out.Errors {
			c.Violate("error-under-concurrent-use", e, cs)
		}
		if out.CloseStuck != "" {
			if out.Deadlock {
				c.Violate("close-does-not-terminate", fmt.Sprintf("Close did not return within 40 s and two goroutine dumps 3 s apart show the same blocked goroutines:\n%s", firstLines(out.CloseStuck, 80)), cs)
			} else if out.Spinning != "" {
				c.Violate("close-does-not-terminate:spinning", fmt.Sprintf("Close did not return within 160 s; in seven looks, 20 s apart, the same goroutine(s) of the writer were running (not blocked) in %s while Close waited:\n%s", out.Spinning, firstLines(out.CloseStuck, 80)), cs)
			} else {
				c.Inconclusive("close-slow")
			}
			continue
		}
		c.Event("closes_under_load", 1)
		c.EventMax("max_close_ms", int64(out.CloseSeconds*1000))
		if out.ReopenErr != "" {
			c.Violate("reopen-after-close-fails", out.ReopenErr, cs)
		}
		if out.ReopenDiff != "" {
			c.Violate("acknowledged-batch-lost-after-close", out.ReopenDiff, cs)
		}
		if out.Signature != "" {
			c.Distinct(out.Signature)
		}
	}
	reports, keys := parseRaceReports(logDir)
	c.Event("race_reports", len(reports))
	seen := map[string]bool{}
	for i, k := range keys {
		if seen[k] {
			continue
		}
		seen[k] = true
		key := "data-race:" + k
		if !strings.Contains(reports[i], "blugelabs/bluge") {
			key = "monitor-data-race:" + k
		} else if strings.Contains(reports[i], "blugelabs/ice/v2.(*Segment).getDocStored") || strings.Contains(reports[i], "ice/v2.ZSTDDecompress") || strings.Contains(reports[i], "ice/v2.(*Segment).visitDocument") {
			// ice v2 decompresses stored-field chunks into one buffer per segment
			key = "data-race:ice-v2-stored-field-buffer"
		} else if strings.Contains(reports[i], "index.(*Writer).Stats()") {
			// the statistics accessor copies the counters struct non-atomically (reported separately)
			key = "data-race:index.Writer.Stats"
		}
		if seen[key] {
			continue
		}
		seen[key] = true
		c.Violate(key, "race detector report:\n"+firstLines(reports[i], 60), map[string]interface{}{"report": reports[i]})
	}
	c.Set("distinct_race_report_keys", len(seen))
	c.Sample(cases[0])
	c.Require("closes_under_load", 10)
	c.Require("op_search", 500)
	c.Require("op_batch", 200)
}
