package checks

import (
	"fmt"
	"math/rand"
	"runtime"
	"sort"
	"strings"
	"sync"
	"sync/atomic"
	"time"

	"github.com/anishathalye/porcupine"
	"github.com/blugelabs/bluge"

	"verif/harness/model"
	"verif/harness/mon"
	"verif/harness/vk"
)

func init() {
	register(&Check{ID: "C05", Level: "exploration", Run: runC05})
}

// linIn / linOut are the operation payloads of a recorded history.
type linIn struct {
	Kind string // batch read
	Ops  []model.Op
}

type linOut struct {
	Dump string // read: canonical content
	Err  string
}

func canonState(ix []string) string { return strings.Join(ix, ",") }

// applyCanon applies a batch to a canonical state ("id=v" entries, sorted).
func applyCanon(state string, ops []model.Op) string {
	var entries []string
	if state != "" {
		entries = strings.Split(state, ",")
	}
	del := map[string]bool{}
	for _, op := range ops {
		if op.Kind == "update" || op.Kind == "delete" {
			del[op.ID] = true
		}
	}
	out := entries[:0:0]
	for _, e := range entries {
		id := e[:strings.Index(e, "=")]
		if !del[id] {
			out = append(out, e)
		}
	}
	for _, op := range ops {
		if op.Kind == "update" || op.Kind == "insert" {
			out = append(out, op.Doc.ID+"="+op.Doc.V)
		}
	}
	sort.Strings(out)
	return canonState(out)
}

var linModel = porcupine.Model{
	Init: func() interface{} { return "" },
	Step: func(state, input, output interface{}) (bool, interface{}) {
		in := input.(linIn)
		out := output.(linOut)
		st := state.(string)
		if in.Kind == "batch" {
			if out.Err != "" {
				return false, st
			}
			return true, applyCanon(st, in.Ops)
		}
		return out.Dump == st, st
	},
	Equal: func(a, b interface{}) bool { return a.(string) == b.(string) },
	DescribeOperation: func(input, output interface{}) string {
		in := input.(linIn)
		out := output.(linOut)
		if in.Kind == "read" {
			return "read -> [" + out.Dump + "]"
		}
		var s []string
		for _, op := range in.Ops {
			if op.Doc != nil {
				s = append(s, fmt.Sprintf("%s(%s,%s=%s)", op.Kind, op.ID, op.Doc.ID, op.Doc.V))
			} else {
				s = append(s, fmt.Sprintf("%s(%s)", op.Kind, op.ID))
			}
		}
		return "batch{" + strings.Join(s, " ") + "}"
	},
}

type c05Witness struct {
	Config    string
	Scenario  string
	History   []string
	Ops       []porcupine.Operation `json:"-"`
	FinalRead string
}

func describeHistory(ops []porcupine.Operation) []string {
	sorted := append([]porcupine.Operation(nil), ops...)
	sort.Slice(sorted, func(i, j int) bool { return sorted[i].Call < sorted[j].Call })
	var out []string
	for _, o := range sorted {
		out = append(out, fmt.Sprintf("client %d [%d,%d] %s", o.ClientId, o.Call, o.Return, linModel.DescribeOperation(o.Input, o.Output)))
	}
	return out
}

type c05Opts struct {
	Writers, Readers, OpsPer, IDs int
	Rig                           rigOpts
	Scenario                      string // free | stale-root | stale-root-swap
	Seed                          int64
}

func c05History(c *vk.Ctx, o c05Opts) {
	r := rand.New(rand.NewSource(o.Seed))
	if !o.Rig.Mem {
		o.Rig.Dir = c.TempDir("c05-")
	}
	if o.Scenario == "free" {
		o.Rig.Seed = o.Seed | 1
	}
	rg := newRig(o.Rig)
	w, err := bluge.OpenWriter(rg.Cfg)
	if err != nil {
		c.Violate("harness-open", err.Error(), nil)
		return
	}
	var clock int64
	var mu sync.Mutex
	var ops []porcupine.Operation
	record := func(client int, in linIn, call int64, out linOut) {
		ret := atomic.AddInt64(&clock, 1)
		mu.Lock()
		ops = append(ops, porcupine.Operation{ClientId: client, Input: in, Call: call, Output: out, Return: ret})
		mu.Unlock()
	}
	var verCounter int64
	doBatch := func(client int, b []model.Op) {
		in := linIn{Kind: "batch", Ops: b}
		mb := &model.Batch{Ops: b}
		call := atomic.AddInt64(&clock, 1)
		err := w.Batch(mb.ToBluge())
		out := linOut{}
		if err != nil {
			out.Err = err.Error()
		}
		record(client, in, call, out)
	}
	doRead := func(client int) string {
		call := atomic.AddInt64(&clock, 1)
		rd, err := w.Reader()
		out := linOut{}
		if err != nil {
			out.Err = err.Error()
		} else {
			d, err := dumpReader(rd)
			_ = rd.Close()
			if err != nil {
				out.Err = err.Error()
			}
			out.Dump = canonState(d)
		}
		record(client, linIn{Kind: "read"}, call, out)
		return out.Dump
	}
	mkOps := func(client int) []model.Op {
		var b []model.Op
		named := map[string]bool{}
		for k := 0; k < 1+r.Intn(2); k++ {
			id := fmt.Sprintf("k%d", r.Intn(o.IDs))
			if named[id] {
				continue
			}
			named[id] = true
			if r.Intn(4) == 0 {
				b = append(b, model.Op{Kind: "delete", ID: id})
			} else {
				v := atomic.AddInt64(&verCounter, 1)
				b = append(b, model.Op{Kind: "update", ID: id, Doc: &model.Doc{ID: id, V: fmt.Sprintf("c%d-%d", client, v), Text: map[string]string{"t": "x"}}})
			}
		}
		return b
	}
	staleEntered := false
	switch o.Scenario {
	case "free":
		// pre-generate per client so that the PRNG is used from one goroutine only
		plans := make([][][]model.Op, o.Writers)
		for cw := range plans {
			for k := 0; k < o.OpsPer; k++ {
				plans[cw] = append(plans[cw], mkOps(cw))
			}
		}
		var wg sync.WaitGroup
		for cw := 0; cw < o.Writers; cw++ {
			wg.Add(1)
			go func(cw int) {
				defer wg.Done()
				for _, b := range plans[cw] {
					doBatch(cw, b)
				}
			}(cw)
		}
		for cr := 0; cr < o.Readers; cr++ {
			wg.Add(1)
			go func(cr int) {
				defer wg.Done()
				for k := 0; k < o.OpsPer; k++ {
					doRead(100 + cr)
					runtime.Gosched()
				}
			}(cr)
		}
		wg.Wait()
	case "stale-root", "stale-root-swap":
		// some content first
		for k := 0; k < 2+r.Intn(3); k++ {
			doBatch(0, mkOps(0))
		}
		x := fmt.Sprintf("k%d", r.Intn(o.IDs))
		marker := "marker-A"
		hold := rg.Sched.HoldNth(0, func(p mon.Point) bool {
			return p.Name == "docsmatching" && p.Role == "batch" && strings.Contains(p.Kind, marker)
		})
		va := atomic.AddInt64(&verCounter, 1)
		aOps := []model.Op{{Kind: "delete", ID: marker}, {Kind: "update", ID: x, Doc: &model.Doc{ID: x, V: fmt.Sprintf("A-%d", va), Text: map[string]string{"t": "a"}}}}
		aDone := make(chan struct{})
		go func() {
			doBatch(1, aOps)
			close(aDone)
		}()
		if hold.Reached(3 * time.Second) {
			// A has taken its root and is about to look at its first segment: land a conflicting batch B
			vb := atomic.AddInt64(&verCounter, 1)
			doBatch(2, []model.Op{{Kind: "update", ID: x, Doc: &model.Doc{ID: x, V: fmt.Sprintf("B-%d", vb), Text: map[string]string{"t": "b"}}}})
			if o.Scenario == "stale-root-swap" {
				// more batches so that persists / merges replace the segments A is looking at
				for k := 0; k < 5; k++ {
					doBatch(2, mkOps(2))
				}
				waitQuietRig(w, !o.Rig.Mem)
			}
			doRead(101)
			staleEntered = !hold.TimedOut
			hold.Release()
		} else {
			hold.Release()
			c.Inconclusive("gate-not-reached:docsmatching")
		}
		<-aDone
		doBatch(2, mkOps(2))
	}
	final := doRead(199)
	for _, v := range rg.Violations() {
		c.Violate("seam-violation", v, nil)
	}
	if err := w.Close(); err != nil {
		c.Violate("close-error", err.Error(), nil)
	}
	res, info := porcupine.CheckOperationsVerbose(linModel, ops, 20*time.Second)
	_ = info
	c.Eval(1)
	c.Event("histories_"+o.Scenario, 1)
	c.Event("operations_checked", len(ops))
	switch res {
	case porcupine.Ok:
		c.Event("histories_linearizable", 1)
	case porcupine.Unknown:
		c.Inconclusive("porcupine-timeout")
		return
	case porcupine.Illegal:
		c.Violate("history-not-linearizable:"+o.Scenario+":"+modeOf(o.Rig), fmt.Sprintf("config %s scenario %s: no linearization of %d operations explains the observed reads (final read [%s])", rg.Name, o.Scenario, len(ops), final),
			&c05Witness{Config: rg.Name, Scenario: o.Scenario, History: describeHistory(ops), FinalRead: final})
		return
	}
	if staleEntered {
		c.Event("stale_root_windows_entered", 1)
	}
	// non-trivial: a pair of batches on a common id with overlapping call intervals
	overlap := false
	for i := range ops {
		for j := i + 1; j < len(ops) && !overlap; j++ {
			a, b := ops[i], ops[j]
			ia, ib := a.Input.(linIn), b.Input.(linIn)
			if ia.Kind != "batch" || ib.Kind != "batch" || a.ClientId == b.ClientId {
				continue
			}
			if a.Call < b.Return && b.Call < a.Return {
				ids := map[string]bool{}
				for _, op := range ia.Ops {
					ids[op.ID] = true
				}
				for _, op := range ib.Ops {
					if ids[op.ID] {
						overlap = true
					}
				}
			}
		}
	}
	if overlap {
		c.Event("histories_with_overlapping_conflicting_batches", 1)
		c.DistinctHash(vk.Hash64(strings.Join(describeHistory(ops), ";")))
	}
}

func runC05(c *vk.Ctx) {
	c.Rule("recorded client-boundary histories (call stamp before invoking Writer.Batch / Writer.Reader, return stamp after, one atomic clock) of 2..8 writer goroutines and 1..3 reader goroutines over <= 4 ids in safe and unsafe mode, on file-system and in-memory directories, each closed by a final read; every history is checked by porcupine against the abstract index as sequential model (a read must equal the state); " +
		"schedules: seeded jitter at all seams, and scripted gates that hold batch A after it took its root while a conflicting batch B (and, in a variant, persists and merges replacing A's segments) is introduced. distinct non-trivial = distinct histories holding two batches of different clients on a common id with overlapping call intervals")
	c.Assume("a checker timeout (20 s) is inconclusive, never a verdict", "unique version tags make every read identify the writes it observed")
	n := c.Pick(320, 30000)
	nGate := c.Pick(60, 3000)
	var wg sync.WaitGroup
	sem := make(chan struct{}, runtime.NumCPU())
	run := func(o c05Opts) {
		wg.Add(1)
		sem <- struct{}{}
		go func() {
			defer wg.Done()
			defer func() { <-sem }()
			c05History(c, o)
		}()
	}
	for i := 0; i < n; i++ {
		o := c05Opts{Writers: 2 + i%7, Readers: 1 + i%3, OpsPer: 3 + i%4, IDs: 2 + i%3, Scenario: "free", Seed: vk.SubSeed(c.Seed, fmt.Sprintf("c05-free-%d", i)),
			Rig: rigOpts{Mem: i%2 == 0, Unsafe: i%4 >= 2, Merge: "happy", MemMerge: i%3 == 0, SegVer: 1 /* v2: per-segment stored-field buffer is not safe for concurrent readers (C15 known finding) */}}
		if o.Writers*o.OpsPer > 30 {
			o.OpsPer = 3
		}
		run(o)
	}
	for i := 0; i < nGate; i++ {
		sc := "stale-root"
		if i%3 == 2 {
			sc = "stale-root-swap"
		}
		run(c05Opts{IDs: 2 + i%2, Scenario: sc, Seed: vk.SubSeed(c.Seed, fmt.Sprintf("c05-gate-%d", i)),
			Rig: rigOpts{Mem: i%2 == 1, Unsafe: i%4 == 3, Merge: "happy", MemMerge: i%5 == 0}})
	}
	wg.Wait()
	c.Sample(map[string]interface{}{"scenario": "stale-root", "shape": "A = batch{delete(marker-A) update(kX)} held at its first DocsMatchingTerms; B = batch{update(kX)} completes; A released; final read"})
	c.Require("histories_linearizable", 200)
	c.Require("histories_with_overlapping_conflicting_batches", 50)
	c.Require("stale_root_windows_entered", 20)
}
