package checks

import (
	"encoding/json"
	"fmt"
	"math/rand"
	"os"
	"path/filepath"
	"runtime"
	"sort"
	"strings"
	"sync"
	"time"

	"github.com/blugelabs/bluge"
	"github.com/blugelabs/bluge/index"

	"verif/harness/bx"
	"verif/harness/model"
	"verif/harness/mon"
	"verif/harness/vk"
)

func init() {
	vk.RegisterChild("crashopen", crashChildOpen)
	vk.RegisterChild("crashcontinue", crashChildContinue)
}

// dumpReader lists the live documents of a reader as sorted "id=version" strings.
func dumpReader(rd *bluge.Reader) ([]string, error) {
	hits, _, err := bx.SafeCollect(rd, bluge.NewAllMatches(bluge.NewMatchAllQuery()), true)
	if err != nil {
		return nil, err
	}
	var out []string
	for _, h := range hits {
		v := ""
		if vs := h.Stored["v"]; len(vs) > 0 {
			v = vs[0]
		}
		out = append(out, h.ID+"="+v)
	}
	sort.Strings(out)
	n, err := rd.Count()
	if err != nil {
		return nil, err
	}
	if int(n) != len(out) {
		return nil, fmt.Errorf("Count() = %d but match-all enumerates %d documents", n, len(out))
	}
	return out, nil
}

func modelDump(ix *model.Index) []string {
	var out []string
	for _, d := range ix.Docs {
		out = append(out, d.ID+"="+d.V)
	}
	sort.Strings(out)
	return out
}

// fsConfig builds a configuration on a real directory wrapped by a recording directory.
type fsOpts struct {
	Loader    string // mmap | nommap
	Unsafe    bool
	Merge     string // happy | none | default
	MemMerge  bool
	KeepN     int
	SegVer    int
}

func fsConfig(dir string, o fsOpts, wrap func(inner index.Directory) index.Directory) bluge.Config {
	cfg := bluge.DefaultConfigWithDirectory(func() index.Directory {
		d := index.NewFileSystemDirectory(dir)
		if o.Loader == "nommap" {
			d.SetLoadMMapFunc(index.LoadMMapNever)
		}
		if wrap != nil {
			return wrap(d)
		}
		return d
	})
	if o.SegVer == 2 {
		cfg = cfg.WithSegmentVersion(2)
	}
	switch o.Merge {
	case "happy":
		cfg = bx.MergeHappy(cfg, o.MemMerge)
	case "none":
		cfg = bx.NoMerge(cfg)
	}
	return bx.WithIC(cfg, func(ic *index.Config) {
		if o.Unsafe {
			ic.UnsafeBatch = true
		}
		if o.KeepN > 0 {
			n := o.KeepN
			ic.DeletionPolicyFunc = func() index.DeletionPolicy { return index.NewKeepNLatestDeletionPolicy(n) }
		}
	})
}

type crashOpenCase struct {
	Dir string
}

type openOutcome struct {
	Err  string   `json:",omitempty"`
	Dump []string `json:",omitempty"`
}

type crashOpenResult struct {
	ReaderMmap   openOutcome
	ReaderNoMmap openOutcome
	Writer       openOutcome
	WriterBatch  string `json:",omitempty"` // error of a probe batch on the recovered writer
	AfterBatch   []string `json:",omitempty"`
}

func openAndDump(dir, loader string) openOutcome {
	rd, err := bluge.OpenReader(fsConfig(dir, fsOpts{Loader: loader, Merge: "none"}, nil))
	if err != nil {
		return openOutcome{Err: err.Error()}
	}
	defer rd.Close()
	d, err := dumpReader(rd)
	if err != nil {
		return openOutcome{Err: "dump: " + err.Error()}
	}
	if d == nil {
		d = []string{}
	}
	return openOutcome{Dump: d}
}

func crashChildOpen(in json.RawMessage) (interface{}, error) {
	var cs crashOpenCase
	if err := json.Unmarshal(in, &cs); err != nil {
		return nil, err
	}
	res := &crashOpenResult{}
	var done func()
	cs.Dir, done = privateCopy(cs.Dir) // the writer below changes the directory; the image must stay as made
	defer done()
	res.ReaderMmap = openAndDump(cs.Dir, "mmap")
	res.ReaderNoMmap = openAndDump(cs.Dir, "nommap")
	w, err := bluge.OpenWriter(fsConfig(cs.Dir, fsOpts{Loader: "mmap", Merge: "none"}, nil))
	if err != nil {
		res.Writer = openOutcome{Err: err.Error()}
		return res, nil
	}
	rd, err := w.Reader()
	if err != nil {
		res.Writer = openOutcome{Err: err.Error()}
		_ = w.Close()
		return res, nil
	}
	d, err := dumpReader(rd)
	_ = rd.Close()
	if err != nil {
		res.Writer = openOutcome{Err: "dump: " + err.Error()}
	} else {
		if d == nil {
			d = []string{}
		}
		res.Writer = openOutcome{Dump: d}
	}
	// the recovered writer accepts a further batch
	probe := &model.Doc{ID: "probe", V: "probe-v", Text: map[string]string{"t": "probe"}}
	if err := w.Update(bluge.Identifier("probe"), probe.ToBluge()); err != nil {
		res.WriterBatch = err.Error()
	} else if rd2, err := w.Reader(); err == nil {
		res.AfterBatch, _ = dumpReader(rd2)
		_ = rd2.Close()
	}
	_ = w.Close()
	return res, nil
}

// ---- workload producing a trace ----

type traceOpts struct {
	Seed     int64
	Batches  int
	IDs      int
	FS       fsOpts
	Jitter   bool
	Dir      string
	VPrefix  string
	StartIx  *model.Index // model state the directory already holds
}

type traceResult struct {
	Events []*mon.Ev
	Models []*model.Index // Models[j] = state after j batches (Models[0] = start)
	Batches []*model.Batch
	Errs   []string
	Layouts map[int]int // segment count histogram (exploration info)
}

// genHistory produces batches over a small id space.
func genHistory(r *rand.Rand, n, ids int, vprefix string) []*model.Batch {
	var out []*model.Batch
	ver := 0
	for i := 0; i < n; i++ {
		b := &model.Batch{}
		nops := 1 + r.Intn(4)
		if r.Intn(12) == 0 {
			nops = 0 // empty batch
		}
		named := map[string]bool{}
		for k := 0; k < nops; k++ {
			id := fmt.Sprintf("k%d", r.Intn(ids))
			if named[id] {
				continue
			}
			named[id] = true
			if r.Intn(4) == 0 {
				b.Ops = append(b.Ops, model.Op{Kind: "delete", ID: id})
				continue
			}
			ver++
			d := &model.Doc{ID: id, V: fmt.Sprintf("%s%d", vprefix, ver), Text: map[string]string{"t": fmt.Sprintf("w%d common x%d", r.Intn(4), ver%3)}}
			b.Ops = append(b.Ops, model.Op{Kind: "update", ID: id, Doc: d})
		}
		out = append(out, b)
	}
	return out
}

// runTrace applies a generated history through a recording directory, single issuer.
func runTrace(o traceOpts) (*traceResult, error) {
	r := rand.New(rand.NewSource(o.Seed))
	var rdir *mon.RDir
	jr := rand.New(rand.NewSource(o.Seed ^ 0x5ca1ab1e))
	var jmu sync.Mutex
	cfg := fsConfig(o.Dir, o.FS, func(inner index.Directory) index.Directory {
		rdir = mon.NewRDir(inner, o.Dir)
		if o.Jitter {
			rdir.Gate = func(p mon.Point) {
				jmu.Lock()
				k := jr.Intn(12)
				jmu.Unlock()
				switch {
				case k < 5:
				case k < 8:
					runtime.Gosched()
				case k < 10:
					time.Sleep(50 * time.Microsecond)
				case k < 11:
					time.Sleep(500 * time.Microsecond)
				default:
					time.Sleep(3 * time.Millisecond)
				}
			}
		}
		return rdir
	})
	w, err := bluge.OpenWriter(cfg)
	if err != nil {
		return nil, fmt.Errorf("open writer: %w", err)
	}
	res := &traceResult{Layouts: map[int]int{}}
	start := o.StartIx
	if start == nil {
		start = &model.Index{}
	}
	res.Models = append(res.Models, start)
	res.Batches = genHistory(r, o.Batches, o.IDs, o.VPrefix)
	cur := start
	for i, b := range res.Batches {
		n := i + 1
		rb := b.ToBluge()
		if o.FS.Unsafe {
			nn := n
			rb.SetPersistedCallback(func(err error) {
				if err == nil {
					rdir.Mark("ack", nn)
				} else {
					rdir.Mark("ack-error", nn)
				}
			})
		}
		rdir.Mark("call", n)
		err := w.Batch(rb)
		if err != nil {
			res.Errs = append(res.Errs, fmt.Sprintf("batch %d: %v", n, err))
			rdir.Mark("batch-error", n)
		} else {
			rdir.Mark("applied", n)
			if !o.FS.Unsafe {
				rdir.Mark("ack", n)
			}
		}
		cur = cur.Apply(b)
		res.Models = append(res.Models, cur)
		if i%5 == 4 {
			if rd, err := w.Reader(); err == nil {
				res.Layouts[len(rd.VerifSnapshot().Segments())]++
				_ = rd.Close()
			}
		}
		if o.FS.Unsafe && r.Intn(3) == 0 {
			time.Sleep(time.Duration(r.Intn(800)) * time.Microsecond)
		}
	}
	if err := w.Close(); err != nil {
		res.Errs = append(res.Errs, "close: "+err.Error())
	}
	rdir.Mark("closed", 0)
	res.Events = rdir.Events()
	return res, nil
}

type crashContinueCase struct {
	Dir     string
	Seed    int64
	Batches int
	IDs     int
	VPrefix string
	Unsafe  bool
	SegVer  int
}

type crashContinueResult struct {
	OpenErr  string
	Start    []string
	Events   []*mon.Ev
	Batches  []*model.Batch
	Errs     []string
}

func crashChildContinue(in json.RawMessage) (interface{}, error) {
	var cs crashContinueCase
	if err := json.Unmarshal(in, &cs); err != nil {
		return nil, err
	}
	out := &crashContinueResult{}
	var done func()
	cs.Dir, done = privateCopy(cs.Dir) // the continuation writes; the image must stay as made (re-runs)
	defer done()
	// what does the directory hold?
	o := openAndDump(cs.Dir, "mmap")
	if o.Err != "" {
		out.OpenErr = o.Err
		// a writer may still be able to start from scratch when no snapshot exists: let runTrace decide
	}
	out.Start = o.Dump
	tr, err := runTrace(traceOpts{Seed: cs.Seed, Batches: cs.Batches, IDs: cs.IDs, Dir: cs.Dir, VPrefix: cs.VPrefix, Jitter: true,
		FS: fsOpts{Loader: "mmap", Merge: "happy", MemMerge: cs.Seed%2 == 0, Unsafe: cs.Unsafe, SegVer: cs.SegVer}})
	if err != nil {
		out.OpenErr = "writer: " + err.Error()
		return out, nil
	}
	out.Events, out.Batches, out.Errs = tr.Events, tr.Batches, tr.Errs
	return out, nil
}

// ---- judging images ----

type crashJudge struct {
	c      *vk.Ctx
	prop   string
	models []*model.Index
	canon  []string // canon[j] = strings.Join(modelDump(models[j]))
}

func newCrashJudge(c *vk.Ctx, models []*model.Index) *crashJudge {
	j := &crashJudge{c: c, models: models}
	for _, m := range models {
		j.canon = append(j.canon, strings.Join(modelDump(m), ","))
	}
	return j
}

// stateIndex returns the j in [lo,hi] with canon[j] == dump, or -1. Later states win (so that a
// dump matching several identical states is attributed to the latest).
func (j *crashJudge) stateIndex(dump []string, lo, hi int) int {
	s := strings.Join(dump, ",")
	if lo < 0 {
		lo = 0
	}
	if hi >= len(j.canon) {
		hi = len(j.canon) - 1
	}
	for k := hi; k >= lo; k-- {
		if j.canon[k] == s {
			return k
		}
	}
	return -1
}

type imageVerdict struct {
	Image    *mon.Image
	Result   crashOpenResult
	State    int // recovered state index (-1: none / failed)
	Failed   bool
}

// judgeImage applies the recovery oracle to one opened image; base is the index of models the
// image positions refer to (Acked/Called are batch numbers = model indexes).
func (j *crashJudge) judgeImage(im *mon.Image, res *vk.ChildResult, witBase map[string]interface{}) *imageVerdict {
	c := j.c
	v := &imageVerdict{Image: im, State: -1}
	wit := map[string]interface{}{"image": im, "files": fileSummary(im.Files)}
	for k, x := range witBase {
		wit[k] = x
	}
	c.Eval(1)
	c.Event("images_"+im.Class, 1)
	if res.Faulted() || res.Hung {
		if res.Hung {
			c.Inconclusive("child-watchdog")
		}
		c.Violate("open-kills-process", fmt.Sprintf("opening the crash image at position %d (%s %s) killed the process: %s", im.Pos, im.Class, im.Desc, firstLines(res.Panic+res.Died, 12)), wit)
		v.Failed = true
		return v
	}
	var out crashOpenResult
	if res.Out == nil || json.Unmarshal(res.Out, &out) != nil {
		c.Violate("harness-child", fmt.Sprintf("no result for image at %d: %s", im.Pos, res.Err), wit)
		v.Failed = true
		return v
	}
	v.Result = out
	lo, hi := im.Acked, im.Called
	if lo < 0 {
		lo = 0
	}
	if hi < lo {
		hi = lo
	}
	check := func(who string, o openOutcome) int {
		if o.Err != "" {
			if im.SnapshotCompleted {
				c.Violate("open-fails-although-a-snapshot-was-completed:"+who, fmt.Sprintf("crash at position %d (%s %s): %s failed: %s", im.Pos, im.Class, im.Desc, who, o.Err), wit)
			} else {
				c.Event("legitimate_open_failures_no_snapshot_yet", 1)
			}
			return -1
		}
		st := j.stateIndex(o.Dump, lo, hi)
		if st < 0 {
			anyState := j.stateIndex(o.Dump, 0, len(j.canon)-1)
			key := "recovered-state-is-no-prefix-state:" + who
			what := fmt.Sprintf("crash at position %d (%s %s): %s recovered %v, which is not the abstract index after any batch in [%d,%d]", im.Pos, im.Class, im.Desc, who, o.Dump, lo, hi)
			if anyState >= 0 && anyState < lo {
				key = "acknowledged-batch-lost:" + who
				what = fmt.Sprintf("crash at position %d (%s %s): %s recovered the state after batch %d although batch %d had been acknowledged", im.Pos, im.Class, im.Desc, who, anyState, lo)
			} else if anyState > hi {
				key = "recovered-state-from-the-future:" + who
			}
			c.Violate(key, what, wit)
			return -1
		}
		return st
	}
	s1 := check("OpenReader(mmap)", out.ReaderMmap)
	s2 := check("OpenReader(no mmap)", out.ReaderNoMmap)
	s3 := check("OpenWriter", out.Writer)
	if s1 >= 0 && s2 >= 0 && s1 != s2 && j.canon[s1] != j.canon[s2] {
		c.Violate("loaders-disagree", fmt.Sprintf("crash at position %d: mmap loader recovered state %d, non-mmap loader state %d", im.Pos, s1, s2), wit)
	}
	if s1 >= 0 && s3 >= 0 && j.canon[s1] != j.canon[s3] {
		c.Violate("reader-and-writer-recover-differently", fmt.Sprintf("crash at position %d: OpenReader recovered state %d, OpenWriter state %d", im.Pos, s1, s3), wit)
	}
	if out.Writer.Err == "" {
		if out.WriterBatch != "" {
			c.Violate("recovered-writer-rejects-batch", fmt.Sprintf("crash at position %d: the recovered writer failed a batch: %s", im.Pos, out.WriterBatch), wit)
		} else if s3 >= 0 {
			want := append(append([]string{}, strings.Split(j.canon[s3], ",")...), "probe=probe-v")
			if j.canon[s3] == "" {
				want = []string{"probe=probe-v"}
			}
			sort.Strings(want)
			if fmt.Sprint(want) != fmt.Sprint(out.AfterBatch) {
				c.Violate("recovered-writer-wrong-after-batch", fmt.Sprintf("crash at position %d: after a further batch the recovered writer shows %v, expected %v", im.Pos, out.AfterBatch, want), wit)
			}
		}
	}
	v.State = s3
	if v.State < 0 {
		v.State = s1
	}
	return v
}

func fileSummary(files map[string][]byte) map[string]string {
	out := map[string]string{}
	for n, b := range files {
		h := fmt.Sprintf("%d bytes", len(b))
		if len(b) <= 96 {
			h += fmt.Sprintf(" %x", b)
		}
		out[n] = h
	}
	return out
}

// openImages materialises images and opens each in a child.
func openImages(c *vk.Ctx, images []*mon.Image, tag string) ([]string, []vk.ChildResult) {
	root := c.TempDir("img-" + tag + "-")
	dirs := make([]string, len(images))
	cases := make([]interface{}, len(images))
	for i, im := range images {
		dirs[i] = filepath.Join(root, fmt.Sprintf("i%06d", i))
		if err := im.Materialize(dirs[i]); err != nil {
			c.Violate("harness-materialize", err.Error(), nil)
		}
		cases[i] = crashOpenCase{Dir: dirs[i]}
	}
	res := vk.RunChildren(c.Scratch(), "crashopen", cases, vk.ChildOpts{PerChild: 120, Parallel: runtime.NumCPU(), CaseTimeout: 90 * time.Second, RlimitMB: 3072})
	return dirs, res
}

func removeAll(dirs []string) {
	for _, d := range dirs {
		_ = os.RemoveAll(d)
	}
}
