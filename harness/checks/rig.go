package checks

import (
	"fmt"
	"sort"
	"strings"
	"sync"
	"time"

	"github.com/blugelabs/bluge"
	"github.com/blugelabs/bluge/index"

	"verif/harness/bx"
	"verif/harness/model"
	"verif/harness/mon"
)

// rig is a fully instrumented writer configuration: recording directory, wrapping segment
// plug-in, event call-back and schedule controller.
type rig struct {
	Cfg   bluge.Config
	Sched *mon.Sched
	RSeg  *mon.RSeg
	Dir   string
	Name  string

	mu    sync.Mutex
	rdir  *mon.RDir
	viols []string // liveness violations reported by the seams
}

type rigOpts struct {
	Mem      bool // in-memory directory
	Dir      string
	SegVer   int
	Unsafe   bool
	Merge    string // happy | none | default
	MemMerge bool
	KeepN    int
	Seed     int64 // jitter seed (0 = none)
	Loader   string
	NapUnderFiles int // >0: Config.PersisterNapUnderNumFiles
}

func (o rigOpts) String() string {
	d := "fs"
	if o.Mem {
		d = "mem"
	}
	return fmt.Sprintf("%s-v%d-unsafe=%v-merge=%s-memmerge=%v", d, o.SegVer, o.Unsafe, o.Merge, o.MemMerge)
}

func (r *rig) RDir() *mon.RDir {
	r.mu.Lock()
	defer r.mu.Unlock()
	return r.rdir
}

func (r *rig) violation(key, what string) {
	r.mu.Lock()
	r.viols = append(r.viols, key+": "+what)
	r.mu.Unlock()
}

// Violations returns what the seams reported (use after close ...).
func (r *rig) Violations() []string {
	r.mu.Lock()
	defer r.mu.Unlock()
	return append([]string(nil), r.viols...)
}

func newRig(o rigOpts) *rig {
	r := &rig{Sched: mon.NewSched(o.Seed), Dir: o.Dir, Name: o.String()}
	if o.SegVer == 0 {
		o.SegVer = 1
	}
	r.RSeg = &mon.RSeg{Version: uint32(o.SegVer), RDir: r.RDir, Gate: r.Sched.At, Violation: r.violation}
	wrap := func(inner index.Directory) index.Directory {
		rd := mon.NewRDir(inner, o.Dir)
		rd.Gate = r.Sched.At
		r.mu.Lock()
		r.rdir = rd
		r.mu.Unlock()
		return rd
	}
	var cfg bluge.Config
	if o.Mem {
		cfg = bluge.DefaultConfigWithDirectory(func() index.Directory { return wrap(index.NewInMemoryDirectory()) })
	} else {
		cfg = bluge.DefaultConfigWithDirectory(func() index.Directory {
			d := index.NewFileSystemDirectory(o.Dir)
			if o.Loader == "nommap" {
				d.SetLoadMMapFunc(index.LoadMMapNever)
			}
			return wrap(d)
		})
	}
	if o.SegVer == 2 {
		cfg = cfg.WithSegmentVersion(2)
	}
	switch o.Merge {
	case "happy":
		cfg = bx.MergeHappy(cfg, o.MemMerge)
	case "none":
		cfg = bx.NoMerge(cfg)
	}
	cfg = bx.WithIC(cfg, func(ic *index.Config) {
		*ic = ic.WithSegmentPlugin(r.RSeg.Plugin())
		ic.UnsafeBatch = o.Unsafe
		ic.EventCallback = r.Sched.EventCallback()
		if o.KeepN > 0 {
			n := o.KeepN
			ic.DeletionPolicyFunc = func() index.DeletionPolicy { return index.NewKeepNLatestDeletionPolicy(n) }
		}
		if o.NapUnderFiles > 0 {
			// the persister waits for a lagging merger once the directory holds this many files (default 1000)
			ic.PersisterNapUnderNumFiles = o.NapUnderFiles
		}
	})
	r.Cfg = cfg
	return r
}

// layoutSig describes the physical layout behind a reader: segment ids, persisted flags, deleted counts.
func layoutSig(rd *bluge.Reader) string {
	s := rd.VerifSnapshot()
	segs := s.VerifSegments()
	pers := s.VerifPersisted()
	var parts []string
	for i, sg := range segs {
		del := uint64(0)
		if sg.Deleted != nil {
			del = sg.Deleted.GetCardinality()
		}
		p := "m"
		if pers[i] {
			p = "f"
		}
		parts = append(parts, fmt.Sprintf("%d%s-%d", sg.ID, p, del))
	}
	return strings.Join(parts, ",")
}

// fullDump compares everything C01 names: Count, match-all enumeration with stored fields, lookup by id.
// It returns a description of the first disagreement with the model ("" = agree).
func fullDump(rd *bluge.Reader, ix *model.Index) string {
	hits, _, err := bx.SafeCollect(rd, bluge.NewAllMatches(bluge.NewMatchAllQuery()), true)
	if err != nil {
		return "match-all search failed: " + err.Error()
	}
	n, err := rd.Count()
	if err != nil {
		return "Count failed: " + err.Error()
	}
	if int(n) != len(ix.Docs) {
		return fmt.Sprintf("Count() = %d, the abstract index holds %d documents (%v)", n, len(ix.Docs), modelDump(ix))
	}
	if len(hits) != len(ix.Docs) {
		return fmt.Sprintf("match-all enumerates %d documents, the abstract index holds %d", len(hits), len(ix.Docs))
	}
	byV := map[string]*model.Doc{}
	for _, d := range ix.Docs {
		byV[d.V] = d
	}
	var got, want []string
	for _, h := range hits {
		v := ""
		if vs := h.Stored["v"]; len(vs) > 0 {
			v = vs[0]
		}
		got = append(got, model.CanonStored(h.Stored, byV[v]))
	}
	for _, d := range ix.Docs {
		want = append(want, d.Canon())
	}
	sort.Strings(got)
	sort.Strings(want)
	if fmt.Sprint(got) != fmt.Sprint(want) {
		return fmt.Sprintf("documents (id, version, stored fields) differ: index %v, abstract index %v", got, want)
	}
	// lookup by id
	perID := map[string]int{}
	for _, d := range ix.Docs {
		perID[d.ID]++
	}
	ids := map[string]bool{}
	for id := range perID {
		ids[id] = true
	}
	for i := 0; i < 8; i++ {
		ids[fmt.Sprintf("k%d", i)] = true // ids that may have been deleted
	}
	for id := range ids {
		hs, _, err := bx.SafeCollect(rd, bluge.NewAllMatches(bluge.NewTermQuery(id).SetField("_id")), false)
		if err != nil {
			return "lookup by id failed: " + err.Error()
		}
		if len(hs) != perID[id] {
			return fmt.Sprintf("lookup of id %q finds %d documents, the abstract index holds %d", id, len(hs), perID[id])
		}
	}
	return ""
}

// waitQuietRig waits until the writer's layout stops changing and nothing is unpersisted (file-system rigs).
func waitQuietRig(w *bluge.Writer, needPersisted bool) {
	last := ""
	stable := 0
	for i := 0; i < 600 && stable < 8; i++ {
		rd, err := w.Reader()
		if err != nil {
			return
		}
		sig := layoutSig(rd)
		allP := true
		for _, p := range rd.VerifSnapshot().VerifPersisted() {
			if !p {
				allP = false
			}
		}
		_ = rd.Close()
		if sig == last && (!needPersisted || allP) {
			stable++
		} else {
			stable = 0
			last = sig
		}
		time.Sleep(4 * time.Millisecond)
	}
}
