package checks

import (
	"fmt"
	"math"
	"math/rand"
	"runtime"
	"strings"
	"sync"
	"sync/atomic"

	"github.com/blugelabs/bluge"
	"github.com/blugelabs/bluge/search"
	"github.com/blugelabs/bluge/search/similarity"
	segment "github.com/blugelabs/bluge_segment_api"

	"verif/harness/bx"
	"verif/harness/model"
	"verif/harness/vk"
)

func init() {
	register(&Check{ID: "C17", Level: "exploration", Run: runC17})
}

type stubColl struct{ total, docs, sumTF uint64 }

func (s *stubColl) TotalDocumentCount() uint64            { return s.total }
func (s *stubColl) DocumentCount() uint64                 { return s.docs }
func (s *stubColl) SumTotalTermFrequency() uint64         { return s.sumTF }
func (s *stubColl) Merge(other segment.CollectionStats)   {}

type stubTerm struct{ df uint64 }

func (s *stubTerm) DocumentFrequency() uint64 { return s.df }

func relClose(a, b, tol float64) bool {
	if a == b {
		return true
	}
	return math.Abs(a-b) <= tol*math.Max(math.Abs(a), math.Abs(b))
}

// checkExplanation validates one explanation tree: every node's value must equal the
// formula in its message applied to its children. Unknown templates are violations.
func checkExplanation(c *vk.Ctx, e *search.Explanation, path string, wit interface{}) {
	if e == nil {
		c.Violate("explanation-missing-node", "nil explanation node at "+path, wit)
		return
	}
	c.Event("explanation_nodes", 1)
	for i, ch := range e.Children {
		checkExplanation(c, ch, fmt.Sprintf("%s/%d", path, i), wit)
	}
	child := func(prefix string) *search.Explanation {
		for _, ch := range e.Children {
			if ch != nil && strings.HasPrefix(ch.Message, prefix) {
				return ch
			}
		}
		return nil
	}
	bad := func(key, want string) {
		c.Violate(key, fmt.Sprintf("explanation node %q at %s has value %v, its message's formula gives %s", e.Message, path, e.Value, want), wit)
	}
	switch {
	case e.Message == "sum of:":
		s := 0.0
		for _, ch := range e.Children {
			if ch != nil {
				s += ch.Value
			}
		}
		if !relClose(e.Value, s, 1e-12) {
			bad("explanation-node-mismatch:sum", fmt.Sprint(s))
		}
	case e.Message == "computed as boost * sum":
		b, s := child("boost"), child("sum of:")
		if b == nil || s == nil || len(e.Children) != 2 {
			bad("explanation-node-malformed:boost-sum", "needs children boost and sum")
		} else if !relClose(e.Value, b.Value*s.Value, 1e-12) {
			bad("explanation-node-mismatch:boost-sum", fmt.Sprint(b.Value*s.Value))
		}
	case strings.HasPrefix(e.Message, "score(freq=") && strings.HasSuffix(e.Message, "computed as boost * idf * tf from:"):
		idf, tf, b := child("idf,"), child("tf,"), child("boost")
		if idf == nil || tf == nil {
			bad("explanation-node-malformed:score", "needs children idf and tf")
			break
		}
		want := idf.Value * tf.Value
		if b != nil {
			want *= b.Value
		}
		if !relClose(e.Value, want, 1e-9+16*2.3e-16/math.Abs(tf.Value)) {
			bad("explanation-node-mismatch:score", fmt.Sprint(want))
		}
		var f int
		if _, err := fmt.Sscanf(e.Message, "score(freq=%d)", &f); err == nil {
			if fr := tfChild(tf, "freq,"); fr != nil && fr.Value != float64(f) {
				bad("explanation-node-mismatch:score-freq", fmt.Sprintf("freq child %v", fr.Value))
			}
		}
	case e.Message == "idf, computed as log(1 + (N - n + 0.5) / (n + 0.5)) from:":
		n, N := child("n,"), child("N,")
		if n == nil || N == nil {
			bad("explanation-node-malformed:idf", "needs children n and N")
			break
		}
		want := math.Log(1 + (N.Value-n.Value+0.5)/(n.Value+0.5))
		if !relClose(e.Value, want, 1e-12) {
			bad("explanation-node-mismatch:idf", fmt.Sprintf("%v (n=%v N=%v)", want, n.Value, N.Value))
		} else {
			c.Event("idf_nodes_agreeing_with_message", 1)
		}
	case e.Message == "tf, computed as freq / (freq + k1 * (1 - b + b * dl / avgdl)) from:":
		fr, k1, b, dl, av := child("freq,"), child("k1,"), child("b,"), child("dl,"), child("avgdl,")
		if fr == nil || k1 == nil || b == nil || dl == nil || av == nil {
			bad("explanation-node-malformed:tf", "needs children freq k1 b dl avgdl")
			break
		}
		want := fr.Value / (fr.Value + k1.Value*(1-b.Value+b.Value*dl.Value/av.Value))
		// the value is computed as 1 - 1/(1+x): absolute rounding error ~eps, relative ~eps/value
		if !relClose(e.Value, want, 1e-9+16*2.3e-16/math.Abs(want)) {
			bad("explanation-node-mismatch:tf", fmt.Sprint(want))
		}
	case e.Message == "constant", e.Message == "boost",
		strings.HasPrefix(e.Message, "n, "), strings.HasPrefix(e.Message, "N, "), strings.HasPrefix(e.Message, "freq, "),
		strings.HasPrefix(e.Message, "k1, "), strings.HasPrefix(e.Message, "b, "), strings.HasPrefix(e.Message, "dl, "), strings.HasPrefix(e.Message, "avgdl, "):
		if len(e.Children) != 0 {
			bad("explanation-node-malformed:leaf", "leaf with children")
		}
	default:
		c.Violate("explanation-unknown-template", fmt.Sprintf("explanation node at %s has a message the checker does not know: %q", path, e.Message), wit)
	}
}

func tfChild(tf *search.Explanation, prefix string) *search.Explanation {
	for _, ch := range tf.Children {
		if ch != nil && strings.HasPrefix(ch.Message, prefix) {
			return ch
		}
	}
	return nil
}

// part A: the similarity on boundary statistics
func c17Direct(c *vk.Ctx, n int) {
	sim := similarity.NewBM25Similarity()
	r := c.Rand("c17-direct")
	pickU := func(max uint64) uint64 {
		switch r.Intn(5) {
		case 0:
			return 1
		case 1:
			return max
		case 2:
			return 1 + uint64(r.Int63n(int64(max)))
		case 3:
			return 1 + uint64(r.Intn(10))
		}
		k := uint(r.Intn(41))
		v := uint64(1) << k
		if v > max {
			return max
		}
		return v
	}
	norm := func(dl uint32) float64 { return float64(sim.ComputeNorm(int(dl))) }
	for i := 0; i < n; i++ {
		N := pickU(1 << 40)
		df := pickU(N)
		if df > N {
			df = N
		}
		dl := uint32(pickU(1 << 30))
		avg := pickU(1 << 20)
		freq := int(pickU(1 << 31))
		boost := []float64{1, 2, 0.5, 3, 10, 1e-3, 1e6}[r.Intn(7)]
		cs := &stubColl{total: N, docs: N, sumTF: N * avg}
		if cs.sumTF/avg != N {
			cs.sumTF = math.MaxUint64 / 2
		}
		sc := sim.Scorer(boost, cs, &stubTerm{df: df})
		s := sc.Score(freq, norm(dl))
		c.Eval(1)
		wit := map[string]interface{}{"N": N, "n": df, "dl": dl, "sumTotalTermFreq": cs.sumTF, "freq": freq, "boost": boost}
		if math.IsNaN(s) || math.IsInf(s, 0) || s <= 0 {
			c.Violate("score-not-finite-positive", fmt.Sprintf("score %v for %v", s, wit), wit)
			continue
		}
		// more occurrences never score lower
		if freq < math.MaxInt32 {
			if s2 := sc.Score(freq+1, norm(dl)); s2 < s {
				c.Violate("law-tf", fmt.Sprintf("freq %d scores %v, freq %d scores %v (%v)", freq, s, freq+1, s2, wit), wit)
			}
		}
		// a longer field never scores higher
		if dl < 1<<30 {
			if s2 := sc.Score(freq, norm(dl+1)); s2 > s {
				c.Violate("law-length", fmt.Sprintf("dl %d scores %v, dl %d scores %v (%v)", dl, s, dl+1, s2, wit), wit)
			}
		}
		// a rarer term never weighs less
		if df > 1 {
			s2 := sim.Scorer(boost, cs, &stubTerm{df: df - 1}).Score(freq, norm(dl))
			if s2 < s {
				c.Violate("law-rarity", fmt.Sprintf("df %d scores %v, df %d scores %v (%v)", df, s, df-1, s2, wit), wit)
			}
		}
		// boost is linear (the score is computed as w - w/(1+x): for tiny x the result carries a
		// relative rounding error of about eps/x, which is not a violation of linearity)
		x := float64(freq) / (1.2 * (0.25 + 0.75*float64(dl)/(float64(cs.sumTF)/float64(N))))
		tol := 1e-9 + 16*2.3e-16/x
		s1 := sim.Scorer(1, cs, &stubTerm{df: df}).Score(freq, norm(dl))
		if !relClose(s, boost*s1, tol) {
			c.Violate("law-boost-linear:similarity", fmt.Sprintf("boost %v scores %v, boost 1 scores %v (%v)", boost, s, s1, wit), wit)
		}
		// the explanation derives the score
		ex := sc.Explain(freq, norm(dl))
		if ex == nil || !relClose(ex.Value, s, 1e-12) {
			c.Violate("explanation-value-differs", fmt.Sprintf("Explain gives %v, Score gives %v (%v)", ex, s, wit), wit)
		} else {
			checkExplanation(c, ex, "direct", wit)
		}
		if i < 2 {
			c.Sample(map[string]interface{}{"direct_similarity_call": wit, "score": s})
		}
		c.DistinctHash(vk.Hash64(fmt.Sprintf("direct|%d|%d|%d|%d", bits(N), bits(df), bits(uint64(dl)), bits(uint64(freq)))))
	}
	c.Event("direct_similarity_cases", n)
}

// fuzzyDegenerate reports whether the document holds, under some fuzzy leaf of q, a term whose
// edit distance to the query term is at least the rune length of the shorter of the two
// (the class in which the fuzzy searcher's per-term boost 1 - distance/minLen is <= 0).
func fuzzyDegenerate(q *model.Q, d *model.Doc) bool {
	if d == nil {
		return false
	}
	check := func(term, field string, fz int) bool {
		for _, t := range d.Terms(field) {
			dist := model.OSA(term, t)
			ml := len([]rune(term))
			if l := len([]rune(t)); l < ml {
				ml = l
			}
			if dist <= fz && dist >= ml && dist > 0 {
				return true
			}
		}
		return false
	}
	switch q.Kind {
	case "fuzzy":
		return check(q.Term, q.Field, q.Fuzz)
	case "match":
		if q.Fuzz != 0 {
			for _, tk := range model.Tokens(q.Term) {
				if check(tk, q.Field, q.Fuzz) {
					return true
				}
			}
		}
	}
	for _, l := range [][]*model.Q{q.Must, q.Should, q.MustNot} {
		for _, ch := range l {
			if fuzzyDegenerate(ch, d) {
				return true
			}
		}
	}
	return false
}

func docByID(ix *model.Index, id string) *model.Doc {
	for _, d := range ix.Docs {
		if d.ID == id {
			return d
		}
	}
	return nil
}

func bits(v uint64) int {
	n := 0
	for v > 0 {
		n++
		v >>= 1
	}
	return n
}

// searches aborted by the step counter (C10's known enumeration blow-up), counted for the evidence
var stepLimitHits atomic.Int64

func scoresOf(rd *bluge.Reader, q bluge.Query, explain bool) (map[string]float64, map[string]*search.Explanation, error) {
	req := bluge.NewAllMatches(q)
	if explain {
		req.ExplainScores()
	}
	hits, _, err := bx.SafeCollect(rd, req, false)
	if err != nil {
		if err == bx.ErrStepLimit {
			stepLimitHits.Add(1)
		}
		return nil, nil, err
	}
	sc := map[string]float64{}
	ex := map[string]*search.Explanation{}
	for _, h := range hits {
		sc[h.ID] = h.Score
		ex[h.ID] = h.Match.Explanation
	}
	return sc, ex, nil
}

func openMem(c *vk.Ctx, docs []*model.Doc, perBatch int) (*bluge.Writer, *bluge.Reader) {
	cfg := bx.NoMerge(bluge.InMemoryOnlyConfig())
	w, err := bluge.OpenWriter(cfg)
	if err != nil {
		c.Violate("harness-open", err.Error(), nil)
		return nil, nil
	}
	b := bluge.NewBatch()
	n := 0
	for _, d := range docs {
		b.Insert(d.ToBluge())
		n++
		if n%perBatch == 0 {
			_ = w.Batch(b)
			b = bluge.NewBatch()
		}
	}
	_ = w.Batch(b)
	rd, err := w.Reader()
	if err != nil {
		c.Violate("harness-reader", err.Error(), nil)
		_ = w.Close()
		return nil, nil
	}
	return w, rd
}

func rep(w string, n int) []string {
	out := make([]string, n)
	for i := range out {
		out[i] = w
	}
	return out
}

// part B: metamorphic corpora
func c17Metamorphic(c *vk.Ctx, i int) {
	r := rand.New(rand.NewSource(vk.SubSeed(c.Seed, fmt.Sprintf("c17-meta-%d", i))))
	L := 3 + r.Intn(12)
	tf1 := 1 + r.Intn(L-1)
	tf2 := tf1 + 1 + r.Intn(L-tf1)
	if tf2 > L {
		tf2 = L
	}
	mk := func(id string, toks []string) *model.Doc {
		return &model.Doc{ID: id, V: id, Text: map[string]string{"t": strings.Join(toks, " ")}}
	}
	var docs []*model.Doc
	// tf pair: same length L
	docs = append(docs, mk("tf-lo", append(rep("a", tf1), rep("x", L-tf1)...)))
	docs = append(docs, mk("tf-hi", append(rep("a", tf2), rep("x", L-tf2)...)))
	// length pair: same tf, different length
	extra := 1 + r.Intn(20)
	docs = append(docs, mk("len-short", append(rep("b", tf1), rep("x", L)...)))
	docs = append(docs, mk("len-long", append(rep("b", tf1), rep("x", L+extra)...)))
	// rarity: one doc with the same tf of a rare and a frequent term; fillers make "f" frequent
	docs = append(docs, mk("rar", append(append(rep("r", tf1), rep("f", tf1)...), rep("x", 3)...)))
	nf := 2 + r.Intn(6)
	for k := 0; k < nf; k++ {
		docs = append(docs, mk(fmt.Sprintf("fill%d", k), append(rep("f", 1+r.Intn(3)), rep("y", r.Intn(5))...)))
	}
	r.Shuffle(len(docs), func(a, b int) { docs[a], docs[b] = docs[b], docs[a] })
	w, rd := openMem(c, docs, 1+r.Intn(len(docs)))
	if w == nil {
		return
	}
	defer w.Close()
	defer rd.Close()
	wit := map[string]interface{}{"L": L, "tf1": tf1, "tf2": tf2, "extra": extra, "fillers": nf}
	get := func(term string) map[string]float64 {
		s, _, err := scoresOf(rd, bluge.NewTermQuery(term).SetField("t"), false)
		if err != nil {
			c.Violate("harness-search", err.Error(), wit)
		}
		return s
	}
	sa, sb, sr, sf := get("a"), get("b"), get("r"), get("f")
	c.Eval(4)
	if tf2 > tf1 && !(sa["tf-hi"] > sa["tf-lo"]) {
		c.Violate("law-tf", fmt.Sprintf("same length %d: tf %d scores %v, tf %d scores %v", L, tf1, sa["tf-lo"], tf2, sa["tf-hi"]), wit)
	}
	if !(sb["len-short"] > sb["len-long"]) {
		c.Violate("law-length", fmt.Sprintf("same tf %d: length %d scores %v, length %d scores %v", tf1, L+tf1, sb["len-short"], L+tf1+extra, sb["len-long"]), wit)
	}
	if !(sr["rar"] > sf["rar"]) {
		c.Violate("law-rarity", fmt.Sprintf("same tf and length: rare term scores %v, frequent term (%d more docs) scores %v", sr["rar"], nf, sf["rar"]), wit)
	}
	for _, m := range []map[string]float64{sa, sb, sr, sf} {
		for id, s := range m {
			if math.IsNaN(s) || math.IsInf(s, 0) || s <= 0 {
				c.Violate("score-not-finite-positive", fmt.Sprintf("doc %s score %v", id, s), wit)
			}
		}
	}
	c.DistinctHash(vk.Hash64(fmt.Sprintf("meta|%d|%d|%d|%d", L, tf1, tf2, nf)))
	c.Event("metamorphic_corpora", 1)
	if i < 1 {
		c.Sample(map[string]interface{}{"metamorphic": wit, "score_tf_lo": sa["tf-lo"], "score_tf_hi": sa["tf-hi"]})
	}
}

// c17MultiField: the laws are per field. Documents carry the scored field "t", a second text field "u"
// that repeats the same terms, and a composite field collecting both; a term query on "t" must score
// every document exactly as it does in a twin index holding only the "t" fields (same statistics of "t"),
// and more occurrences in "t" at equal length must win whatever "u" holds.
func c17MultiField(c *vk.Ctx, i int) {
	r := rand.New(rand.NewSource(vk.SubSeed(c.Seed, fmt.Sprintf("c17-mf-%d", i))))
	L := 3 + r.Intn(10)
	tf1 := 1 + r.Intn(L-1)
	tf2 := tf1 + 1 + r.Intn(L-tf1)
	if tf2 > L {
		tf2 = L
	}
	type d struct {
		id   string
		t, u []string
	}
	docs := []d{
		{"tf-lo", append(rep("a", tf1), rep("x", L-tf1)...), append(rep("a", 2+r.Intn(6)), rep("z", r.Intn(4))...)},
		{"tf-hi", append(rep("a", tf2), rep("x", L-tf2)...), rep("z", 1+r.Intn(4))},
	}
	for k := 0; k < 2+r.Intn(5); k++ {
		docs = append(docs, d{fmt.Sprintf("fill%d", k), append(rep("a", r.Intn(3)), rep("y", 1+r.Intn(5))...), append(rep("a", r.Intn(4)), rep("y", r.Intn(3))...)})
	}
	r.Shuffle(len(docs), func(a, b int) { docs[a], docs[b] = docs[b], docs[a] })
	composite := i%2 == 0
	build := func(full bool) (*bluge.Writer, *bluge.Reader) {
		w, err := bluge.OpenWriter(bx.NoMerge(bluge.InMemoryOnlyConfig()))
		if err != nil {
			return nil, nil
		}
		b := bluge.NewBatch()
		for k, x := range docs {
			doc := bluge.NewDocument(x.id).AddField(bluge.NewTextField("t", strings.Join(x.t, " ")).WithAnalyzer(model.Analyzer()))
			if full {
				doc.AddField(bluge.NewTextField("u", strings.Join(x.u, " ")).WithAnalyzer(model.Analyzer()))
				if composite {
					doc.AddField(bluge.NewCompositeFieldExcluding("_all", nil))
				}
			}
			b.Update(doc.ID(), doc)
			if k%3 == 2 {
				_ = w.Batch(b)
				b = bluge.NewBatch()
			}
		}
		_ = w.Batch(b)
		rd, err := w.Reader()
		if err != nil {
			_ = w.Close()
			return nil, nil
		}
		return w, rd
	}
	wf, rf := build(true)
	wt, rt := build(false)
	if wf == nil || wt == nil {
		return
	}
	defer wf.Close()
	defer wt.Close()
	defer rf.Close()
	defer rt.Close()
	wit := map[string]interface{}{"docs": docs, "composite_field": composite, "L": L, "tf1": tf1, "tf2": tf2}
	sf, _, err1 := scoresOf(rf, bluge.NewTermQuery("a").SetField("t"), false)
	st, _, err2 := scoresOf(rt, bluge.NewTermQuery("a").SetField("t"), false)
	c.Eval(2)
	if err1 != nil || err2 != nil {
		c.Violate("harness-search", fmt.Sprint(err1, err2), wit)
		return
	}
	if tf2 > tf1 && !(sf["tf-hi"] > sf["tf-lo"]) {
		c.Violate("law-tf:other-fields-present", fmt.Sprintf("field t, same length %d: tf %d scores %v, tf %d scores %v (the other field of the first document repeats the term)", L, tf1, sf["tf-lo"], tf2, sf["tf-hi"]), wit)
	}
	for id, s := range st {
		if !relClose(s, sf[id], 1e-12) {
			c.Violate("score-depends-on-other-fields", fmt.Sprintf("term query on field t, document %s: %v in the index whose documents also carry field u%s, %v in the twin index holding only t", id, sf[id], map[bool]string{true: " and a composite field", false: ""}[composite], s), wit)
			break
		}
	}
	c.Event("multi_field_twins", 1)
	c.DistinctHash(vk.Hash64(fmt.Sprintf("mf|%d|%d|%d|%v|%d", L, tf1, tf2, composite, len(docs))))
}

// c17WithDeletions: the laws on an index whose segments carry pending deletions, where the scored field is
// sparse (most documents of the segment - and most of the deleted ones - do not have it): the statistics
// fed to the similarity must stay sane (document counts of a field are not the segment's deletions).
func c17WithDeletions(c *vk.Ctx, i int) {
	r := rand.New(rand.NewSource(vk.SubSeed(c.Seed, fmt.Sprintf("c17-del-%d", i))))
	L := 4 + r.Intn(8)
	tf1 := 1 + r.Intn(L-2)
	tf2 := tf1 + 1
	mk := func(id string, t, u []string) *model.Doc {
		d := &model.Doc{ID: id, V: id, Text: map[string]string{}}
		if t != nil {
			d.Text["t"] = strings.Join(t, " ")
		}
		if u != nil {
			d.Text["u"] = strings.Join(u, " ")
		}
		return d
	}
	b1 := &model.Batch{}
	add := func(b *model.Batch, d *model.Doc) { b.Ops = append(b.Ops, model.Op{Kind: "update", ID: d.ID, Doc: d}) }
	add(b1, mk("tf-lo", append(rep("a", tf1), rep("x", L-tf1)...), nil))
	add(b1, mk("tf-hi", append(rep("a", tf2), rep("x", L-tf2)...), nil))
	add(b1, mk("rar", append(append(rep("r", 2), rep("f", 2)...), rep("x", 3)...), nil))
	nf := 2 + r.Intn(4)
	for k := 0; k < nf; k++ {
		add(b1, mk(fmt.Sprintf("fill%d", k), append(rep("f", 1+r.Intn(2)), rep("y", r.Intn(4))...), nil))
	}
	nu := 8 + r.Intn(20) // documents WITHOUT the scored field, in the same segment
	for k := 0; k < nu; k++ {
		add(b1, mk(fmt.Sprintf("other%d", k), nil, []string{"z", "q"}))
	}
	b2 := &model.Batch{} // most of them are deleted or rewritten later: pending deletions in the first segment
	for k := 0; k < nu; k++ {
		switch r.Intn(3) {
		case 0:
			b2.Ops = append(b2.Ops, model.Op{Kind: "delete", ID: fmt.Sprintf("other%d", k)})
		case 1:
			add(b2, mk(fmt.Sprintf("other%d", k), nil, []string{"z"}))
		}
	}
	w, err := bluge.OpenWriter(bx.NoMerge(bluge.InMemoryOnlyConfig()))
	if err != nil {
		return
	}
	defer w.Close()
	if w.Batch(b1.ToBluge()) != nil || w.Batch(b2.ToBluge()) != nil {
		return
	}
	rd, err := w.Reader()
	if err != nil {
		return
	}
	defer rd.Close()
	wit := map[string]interface{}{"L": L, "tf1": tf1, "tf2": tf2, "docs_without_the_field": nu, "fillers": nf, "second_batch": b2}
	get := func(term string) map[string]float64 {
		s, _, err := scoresOf(rd, bluge.NewTermQuery(term).SetField("t"), false)
		if err != nil {
			c.Violate("harness-search", err.Error(), wit)
		}
		return s
	}
	sa, sr, sf := get("a"), get("r"), get("f")
	c.Eval(3)
	for _, m := range []map[string]float64{sa, sr, sf} {
		for id, s := range m {
			if math.IsNaN(s) || math.IsInf(s, 0) || s <= 0 {
				c.Violate("score-not-finite-positive:pending-deletions", fmt.Sprintf("doc %s scores %v on a sparse field in a segment with pending deletions", id, s), wit)
			}
		}
	}
	if !(sa["tf-hi"] > sa["tf-lo"]) {
		c.Violate("law-tf:pending-deletions", fmt.Sprintf("same length %d: tf %d scores %v, tf %d scores %v", L, tf1, sa["tf-lo"], tf2, sa["tf-hi"]), wit)
	}
	if !(sr["rar"] > sf["rar"]) {
		c.Violate("law-rarity:pending-deletions", fmt.Sprintf("same tf and length: rare term scores %v, frequent term (%d more docs) scores %v", sr["rar"], nf, sf["rar"]), wit)
	}
	c.Event("corpora_with_pending_deletions_and_sparse_field", 1)
	c.DistinctHash(vk.Hash64(fmt.Sprintf("del|%d|%d|%d|%d", L, tf1, nu, nf)))
}

// boost linearity per public query type; compound = boost * sum of parts; explanations over query trees
func c17Queries(c *vk.Ctx, i int) {
	r := rand.New(rand.NewSource(vk.SubSeed(c.Seed, fmt.Sprintf("c17-q-%d", i))))
	co := model.GenCorpus(r, model.CorpusOpts{MaxDocs: 25, Geo: true})
	cfg := bx.NoMerge(bluge.InMemoryOnlyConfig())
	w, err := bluge.OpenWriter(cfg)
	if err != nil {
		return
	}
	defer w.Close()
	for _, b := range co.Batches {
		_ = w.Batch(b.ToBluge())
	}
	rd, _ := w.Reader()
	defer rd.Close()
	kinds := []string{"term", "match", "matchphrase", "multiphrase", "prefix", "wildcard", "regexp", "fuzzy", "termrange", "numrange", "daterange", "geobox", "geodist", "all", "bool"}
	for _, kind := range kinds {
		var q *model.Q
		if kind == "bool" {
			q = model.GenQuery(r, co, model.QueryOpts{Kinds: []string{"term", "term", "match", "prefix"}}, 2)
			if q.Kind != "bool" {
				continue
			}
		} else {
			q = model.GenLeaf(r, co, kind)
		}
		if kind == "fuzzy" && q.Fuzz == 0 {
			q.Fuzz = 1
		}
		base, _, err := scoresOf(rd, q.ToBluge(), false)
		c.Eval(1)
		if err != nil || len(base) == 0 {
			continue
		}
		for _, b := range []float64{2, 3, 0.5} {
			qb := *q
			qb.Boost = b
			boosted, _, err := scoresOf(rd, qb.ToBluge(), false)
			c.Eval(1)
			if err != nil {
				continue
			}
			for id, s1 := range base {
				if s1 <= 1e-12 || math.IsNaN(s1) {
					// zero and negative scores are judged by the positivity clause; a score of 2e-16 is
					// the rounding residue of a zero (fuzzy distance = term length, listed finding) and
					// its ratio to anything is noise
					continue
				}
				sb, ok := boosted[id]
				if !ok {
					c.Violate("boost-changes-match-set:"+kind, fmt.Sprintf("query %s: doc %s matches without boost but not with boost %v", q, id, b), map[string]interface{}{"batches": co.Batches, "query": q})
					break
				}
				ratio := sb / s1
				if !relClose(ratio, b, 1e-9) {
					cls := "boost-nonlinear"
					if relClose(ratio, 1, 1e-9) {
						cls = "boost-ignored"
					} else if relClose(ratio, b*b, 1e-9) {
						cls = "boost-quadratic"
					}
					c.Violate(cls+":"+kind, fmt.Sprintf("query %s: boost %v scales the score of %s by %v (%v -> %v)", q, b, id, ratio, s1, sb), map[string]interface{}{"batches": co.Batches, "query": q, "boost": b})
					break
				}
				c.Event("boost_linear_"+kind, 1)
			}
		}
		c.Distinct("boost:" + kind)
	}
	// compound: boost * sum of the matching parts
	for k := 0; k < 6; k++ {
		q := &model.Q{Kind: "bool", MinShould: r.Intn(2)}
		for x := r.Intn(3); x > 0; x-- {
			q.Must = append(q.Must, model.GenLeaf(r, co, []string{"term", "prefix", "match"}[r.Intn(3)]))
		}
		for x := 1 + r.Intn(3); x > 0; x-- {
			q.Should = append(q.Should, model.GenLeaf(r, co, []string{"term", "prefix", "termrange"}[r.Intn(3)]))
		}
		if r.Intn(3) == 0 {
			q.MustNot = append(q.MustNot, model.GenLeaf(r, co, "term"))
		}
		for _, m := range q.Must { // a match query applies its boost twice (separate finding): keep parts unboosted
			m.Boost = 0
		}
		q.Boost = []float64{0, 2, 0.5}[r.Intn(3)]
		total, _, err := scoresOf(rd, q.ToBluge(), false)
		c.Eval(1)
		if err != nil || len(total) == 0 {
			continue
		}
		parts := map[string]float64{}
		for _, p := range append(append([]*model.Q{}, q.Must...), q.Should...) {
			ps, _, err := scoresOf(rd, p.ToBluge(), false)
			if err != nil {
				parts = nil
				break
			}
			for id, s := range ps {
				parts[id] += s
			}
		}
		if parts == nil {
			continue
		}
		bb := q.Boost
		if bb == 0 {
			bb = 1
		}
		for id, s := range total {
			if !relClose(s, bb*parts[id], 1e-9) {
				c.Violate("compound-not-boost-times-sum", fmt.Sprintf("query %s: doc %s scores %v, boost %v x sum of matching parts %v = %v", q, id, s, bb, parts[id], bb*parts[id]),
					map[string]interface{}{"batches": co.Batches, "query": q})
				break
			}
			c.Event("compound_sums_checked", 1)
		}
		c.DistinctHash(vk.Hash64("compound|" + q.Shape()))
	}
	// explanation faithfulness over query trees
	for k := 0; k < 14; k++ {
		q := model.GenQuery(r, co, model.QueryOpts{Kinds: []string{"term", "term", "match", "matchphrase", "prefix", "wildcard", "fuzzy", "termrange", "numrange", "all", "kwterm", "multiphrase", "regexp"}}, 3)
		if q.Kind == "fuzzy" && q.Fuzz == 0 {
			continue
		}
		if r.Intn(3) == 0 {
			q.Boost = []float64{2, 0.5, 3}[r.Intn(3)]
		}
		plain, _, err1 := scoresOf(rd, q.ToBluge(), false)
		expl, exs, err2 := scoresOf(rd, q.ToBluge(), true)
		c.Eval(2)
		if err1 != nil || err2 != nil {
			continue
		}
		wit := map[string]interface{}{"batches": co.Batches, "query": q}
		if len(plain) != len(expl) {
			c.Violate("explain-changes-match-set", fmt.Sprintf("query %s: %d hits without, %d with explanation", q, len(plain), len(expl)), wit)
			continue
		}
		for id, s := range plain {
			if math.IsNaN(s) || math.IsInf(s, 0) || s <= 0 {
				key := "score-not-finite-positive"
				if fuzzyDegenerate(q, docByID(co.Final, id)) {
					key = "score-nonpositive:fuzzy-distance-not-below-term-length"
				}
				c.Violate(key, fmt.Sprintf("query %s: doc %s score %v", q, id, s), wit)
			}
			e := exs[id]
			if e == nil {
				c.Violate("explanation-missing", fmt.Sprintf("query %s: doc %s has no explanation", q, id), wit)
				continue
			}
			if !relClose(e.Value, s, 1e-12) {
				c.Violate("explanation-value-differs", fmt.Sprintf("query %s: doc %s explanation value %v, score without explanation %v", q, id, e.Value, s), wit)
			}
			checkExplanation(c, e, "root", wit)
			c.Event("explained_hits", 1)
		}
		if len(plain) > 0 {
			c.DistinctHash(vk.Hash64("explain|" + q.Shape()))
		}
	}
}

func runC17(c *vk.Ctx) {
	c.Rule("(a) direct similarity calls on boundary statistics (freq to 2^31, lengths to 2^30, n <= N <= 2^40, seven boosts): finite/positive, monotone in tf, length, rarity, boost-linear, explanation derives the score; " +
		"(b) metamorphic corpora (same length tf+k; same tf longer field; same tf/length rarer term) through term searches, also with other fields repeating the terms, with pending deletions, and with the scored field given as several values of one name (twins: same tokens in one value / no positions recorded); (c) boost ratio per public query type for boosts 2, 3, 0.5; " +
		"(d) boolean query score = own boost x sum of the separately searched matching parts; (e) explained vs unexplained score and every explanation node's formula over generated query trees. " +
		"distinct non-trivial = distinct statistic magnitude classes / corpus parameters / query kinds and shapes that produced at least one scored hit")
	c.Assume("monotonicity on boundary statistics is judged non-strictly (floating-point saturation makes large tf scores equal), strictly on the metamorphic corpora (small tf)",
		"explanation node formulas are the six message templates present in the code; an unknown template is a violation",
		"compound law: parts are scored by separate searches on the same reader")
	c17Direct(c, c.Pick(60000, 2000000))
	nMeta := c.Pick(150, 4000)
	nQ := c.Pick(60, 1500)
	workers := runtime.NumCPU()
	var wg sync.WaitGroup
	var next atomic.Int64 // shared work queue: the slow query cases do not pile up on one worker
	for w := 0; w < workers; w++ {
		wg.Add(1)
		go func() {
			defer wg.Done()
			for {
				i := int(next.Add(1)) - 1
				switch {
				case i < nQ:
					c17Queries(c, i)
				case i < nQ+nMeta:
					c17Metamorphic(c, i-nQ)
					c17MultiField(c, i-nQ)
					c17WithDeletions(c, i-nQ)
					c17MultiValued(c, i-nQ)
				default:
					return
				}
			}
		}()
	}
	wg.Wait()
	c.Event("searches_aborted_by_step_limit_see_C10", int(stepLimitHits.Load()))
	c.Require("multi_valued_field_twins", 50)
	c.Require("metamorphic_corpora", 50)
	c.Require("explained_hits", 200)
	c.Require("compound_sums_checked", 50)
	c.Require("explanation_nodes", 1000)
}
