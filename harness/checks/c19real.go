package checks

import (
	"fmt"
	"strings"
	"sync/atomic"
	"time"

	"github.com/blugelabs/bluge"
	"github.com/blugelabs/bluge/index"

	"verif/harness/bx"
	"verif/harness/mon"
	"verif/harness/vk"
)

// The boundedness clause on a REAL writer: the plans are applied by the writer's own merger while small
// segments keep arriving (one document per batch), with merge-happy options whose budget is a handful
// of segments; in every other run one merge of the merger fails once with an injected I/O error. Once
// the arrivals stop, the number of mergeable segments must come back within the budget the harness
// computes itself from the live sizes - the merger must still be there to apply the plans.
// Verdicts: a writer whose merger goroutine no longer exists is a violation; a writer that is merely
// still over budget after 20 s (all loops alive) is counted as inconclusive (wall clock).
func c19RealWriter(c *vk.Ctx, i int) {
	dir := c.TempDir("c19-real-")
	var rdir *mon.RDir
	var mergerPersists int64
	faulty := i%2 == 1
	failAt := int64(1 + i%3)
	fs := fsOpts{Loader: "mmap", Merge: "happy", MemMerge: false}
	cfg := fsConfig(dir, fs, func(inner index.Directory) index.Directory {
		rdir = mon.NewRDir(inner, dir)
		if faulty {
			rdir.Fault = func(idx int, p mon.Point) *mon.FaultSpec {
				if p.Name == "persist" && p.Kind == ".seg" && p.Role == "merger" && atomic.AddInt64(&mergerPersists, 1) == failAt {
					c.Event("real_writer_merge_failures_injected", 1)
					return &mon.FaultSpec{Err: errInjected, AfterBytes: 7}
				}
				return nil
			}
		}
		return rdir
	})
	cfg = withAsyncError(cfg, func(error) {})
	w, err := bluge.OpenWriter(cfg)
	if err != nil {
		c.Violate("harness-open", err.Error(), nil)
		return
	}
	defer w.Close()
	arrivals := c.Pick(40, 120)
	for k := 0; k < arrivals; k++ {
		d := bluge.NewDocument(fmt.Sprintf("d%04d", k)).AddField(bluge.NewTextField("t", "x y"))
		if err := w.Update(d.ID(), d); err != nil {
			c.Violate("real-writer-batch-error", err.Error(), nil)
			return
		}
	}
	o := mpOpts{MaxSegmentsPerTier: bx.MergeHappyOptions.MaxSegmentsPerTier, MaxSegmentSize: bx.MergeHappyOptions.MaxSegmentSize, TierGrowth: bx.MergeHappyOptions.TierGrowth,
		SegmentsPerMergeTask: bx.MergeHappyOptions.SegmentsPerMergeTask, FloorSegmentSize: bx.MergeHappyOptions.FloorSegmentSize, ReclaimDeletesWeight: bx.MergeHappyOptions.ReclaimDeletesWeight}
	state := func() (elig, budget, total int) {
		rd, err := w.Reader()
		if err != nil {
			return 0, 0, 0
		}
		defer rd.Close()
		var eligLive int64
		minLive := int64(1 << 62)
		segs := rd.VerifSnapshot().Segments()
		for _, s := range segs {
			ls, ok := s.(interface{ LiveSize() int64 }) // the planner's own view of a segment
			if !ok {
				continue
			}
			live := ls.LiveSize()
			if live < minLive {
				minLive = live
			}
			if live < o.MaxSegmentSize/2 {
				elig++
				eligLive += live
			}
		}
		first := minLive
		if first < o.FloorSegmentSize {
			first = o.FloorSegmentSize
		}
		return elig, refBudget(eligLive, first, o), len(segs)
	}
	waitQuiet(w)
	elig, budget, total := state()
	// The property speaks of plans applied "while new small segments keep arriving": an idle writer can sit
	// on a few unmerged segments because its merger is only woken by a newly persisted epoch. Up to eight
	// further batches that change nothing (each is a new epoch) stand in for the arrivals going on.
	nudges := 0
	for ; elig > budget && nudges < 8; nudges++ {
		nb := bluge.NewBatch()
		nb.Delete(bluge.Identifier("no-such-document"))
		if err := w.Batch(nb); err != nil {
			break
		}
		waitQuiet(w)
		for dl := time.Now().Add(3 * time.Second); time.Now().Before(dl); {
			if elig, budget, total = state(); elig <= budget {
				break
			}
			time.Sleep(50 * time.Millisecond)
		}
	}
	c.EventMax("real_writer_max_nudges_needed", int64(nudges))
	c.Eval(1)
	c.Event("real_writer_histories", 1)
	dump := goroutineDump()
	for _, loop := range []string{").introducerLoop(", ").persisterLoop(", ").mergerLoop("} {
		if !strings.Contains(dump, loop) {
			c.Violate("real-writer-background-goroutine-gone", fmt.Sprintf("after %d one-document batches (merge failure injected: %v) the open writer's %s goroutine no longer exists; %d mergeable segments, budget %d", arrivals, faulty, strings.Trim(loop, ").("), elig, budget),
				map[string]interface{}{"arrivals": arrivals, "merge_failure_injected": faulty, "failing_merge": failAt})
			return
		}
	}
	if elig > budget {
		c.Inconclusive("real-writer-over-budget-after-8-further-epochs")
		c.Event("real_writer_over_budget_after_nudges", 1)
		return
	}
	c.Event("real_writer_within_budget", 1)
	c.EventMax("real_writer_max_segments_at_quiescence", int64(total))
	c.Distinct(fmt.Sprintf("real|faulty=%v|fail%d|%d", faulty, failAt, arrivals))
}
