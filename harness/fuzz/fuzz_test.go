// Package fuzz holds the native (coverage-guided) fuzz targets used by the thorough tiers of
// C12, C18 and C20. Each target applies the same oracle as the corresponding check and fails
// (t.Fatalf) on a violation, so that the failing input is kept under testdata/fuzz.
package fuzz

import (
	"bytes"
	"encoding/binary"
	"fmt"
	"hash/crc32"
	"os"
	"path/filepath"
	"runtime"
	"sort"
	"sync"
	"testing"

	"github.com/RoaringBitmap/roaring"
	"github.com/blugelabs/bluge"
	"github.com/blugelabs/bluge/analysis"
	"github.com/blugelabs/bluge/index"
	"github.com/blugelabs/bluge/search"
	"github.com/blugelabs/bluge/search/highlight"

	"verif/harness/checks"
	"verif/harness/mon"
)

func validSnapshotBody() []byte {
	bm := roaring.NewBitmap()
	bm.AddMany([]uint32{1, 5, 9, 1000})
	snap := index.VerifNewSnapshot(3, []index.VerifSegment{{ID: 7, Type: "ice", Version: 1, Deleted: bm}, {ID: 9, Type: "ice", Version: 2}})
	var buf bytes.Buffer
	_, _ = snap.WriteTo(&buf, nil)
	return buf.Bytes()
}

// FuzzSnapshotDecode: ReadFrom never panics, never allocates out of proportion, and whatever it
// accepts survives a re-encode / re-decode round trip unchanged.
func FuzzSnapshotDecode(f *testing.F) {
	full := validSnapshotBody()
	f.Add(full[:len(full)-4])
	f.Add([]byte{1, 0})
	f.Add([]byte{1, 1, 3, 'i', 'c', 'e', 0, 0, 0, 1, 7, 0})
	f.Add([]byte{1, 0xff, 0xff, 0xff, 0xff, 0xff, 0xff, 0xff, 0xff, 0x7f})
	f.Fuzz(func(t *testing.T, data []byte) {
		var ms0, ms1 runtime.MemStats
		runtime.ReadMemStats(&ms0)
		s := index.VerifNewSnapshot(0, nil)
		n, err := s.ReadFrom(bytes.NewReader(data))
		runtime.ReadMemStats(&ms1)
		if alloc := ms1.TotalAlloc - ms0.TotalAlloc; alloc > uint64(64*len(data)+4<<20) {
			t.Fatalf("ReadFrom allocated %d bytes for %d input bytes", alloc, len(data))
		}
		if err != nil {
			return
		}
		if int(n) > len(data) {
			t.Fatalf("ReadFrom reports %d bytes read of %d", n, len(data))
		}
		segs := s.VerifSegments()
		for _, sg := range segs {
			if len(sg.Type) < 3 {
				return // the index only writes the type names of its plug-ins ("ice"); shorter ones are outside what it can produce
			}
		}
		re := index.VerifNewSnapshot(0, segs)
		var buf bytes.Buffer
		if _, err := re.WriteTo(&buf, nil); err != nil {
			t.Fatalf("re-encoding an accepted snapshot failed: %v", err)
		}
		back := index.VerifNewSnapshot(0, nil)
		if _, err := back.ReadFrom(bytes.NewReader(buf.Bytes()[:buf.Len()-4])); err != nil {
			t.Fatalf("accepted snapshot does not survive a round trip: %v", err)
		}
		b2 := back.VerifSegments()
		if len(b2) != len(segs) {
			t.Fatalf("round trip changed the number of segments: %d -> %d", len(segs), len(b2))
		}
		for i := range segs {
			if segs[i].ID != b2[i].ID || segs[i].Type != b2[i].Type || segs[i].Version != b2[i].Version {
				t.Fatalf("round trip changed segment %d", i)
			}
		}
	})
}

var (
	baseOnce sync.Once
	baseDir  string
	baseNew  uint64
	baseOld  uint64
	baseIDs  string
	baseErr  error
)

func dumpIDs(rd *bluge.Reader) string {
	hits, err := checks.DumpReaderForFuzz(rd)
	if err != nil {
		return "ERR " + err.Error()
	}
	return fmt.Sprint(hits)
}

func prepareBase() {
	baseDir, baseErr = os.MkdirTemp("", "verif-fuzz-base-")
	if baseErr != nil {
		return
	}
	cfg := checks.C12ConfigForFuzz(baseDir, "nommap")
	w, err := bluge.OpenWriter(cfg)
	if err != nil {
		baseErr = err
		return
	}
	for i := 0; i < 3; i++ {
		d := bluge.NewDocument(fmt.Sprintf("a%d", i)).AddField(bluge.NewTextField("t", "x"))
		_ = w.Update(d.ID(), d)
	}
	_ = w.Close()
	w, err = bluge.OpenWriter(cfg)
	if err != nil {
		baseErr = err
		return
	}
	d := bluge.NewDocument("b1").AddField(bluge.NewTextField("t", "y"))
	_ = w.Update(d.ID(), d)
	_ = w.Close()
	snaps, _ := index.NewFileSystemDirectory(baseDir).List(index.ItemKindSnapshot)
	if len(snaps) < 2 {
		baseErr = fmt.Errorf("need two snapshots, have %v", snaps)
		return
	}
	baseNew, baseOld = snaps[0], snaps[1]
	// the state to fall back to: the directory without the newest snapshot
	tmp, _ := os.MkdirTemp("", "verif-fuzz-ref-")
	defer os.RemoveAll(tmp)
	copyFiles(baseDir, tmp, mon.FileName(".snp", baseNew))
	rd, err := bluge.OpenReader(checks.C12ConfigForFuzz(tmp, "nommap"))
	if err != nil {
		baseErr = err
		return
	}
	baseIDs = dumpIDs(rd)
	_ = rd.Close()
}

func copyFiles(src, dst, skip string) {
	ents, _ := os.ReadDir(src)
	for _, e := range ents {
		if e.Name() == skip || e.Name() == "bluge.pid" {
			continue
		}
		b, _ := os.ReadFile(filepath.Join(src, e.Name()))
		_ = os.WriteFile(filepath.Join(dst, e.Name()), b, 0o600)
	}
}

// FuzzSnapshotLoad: an arbitrary newest snapshot file is either rejected in favour of the older
// intact snapshot, or it is a correct encoding (CRC and decoder agree) of existing segments.
func FuzzSnapshotLoad(f *testing.F) {
	full := validSnapshotBody()
	f.Add(full, true)
	f.Add([]byte{}, false)
	f.Add([]byte{1, 0, 0, 0, 0, 0}, true)
	f.Fuzz(func(t *testing.T, data []byte, mmap bool) {
		baseOnce.Do(prepareBase)
		if baseErr != nil {
			t.Skip(baseErr)
		}
		dir, err := os.MkdirTemp("", "verif-fuzz-case-")
		if err != nil {
			t.Skip(err)
		}
		defer os.RemoveAll(dir)
		name := mon.FileName(".snp", baseNew)
		copyFiles(baseDir, dir, name)
		_ = os.WriteFile(filepath.Join(dir, name), data, 0o600)
		loader := "nommap"
		if mmap {
			loader = "mmap"
		}
		rd, err := bluge.OpenReader(checks.C12ConfigForFuzz(dir, loader))
		if err != nil {
			t.Fatalf("OpenReader failed instead of falling back to the intact older snapshot: %v", err)
		}
		defer rd.Close()
		ep := rd.VerifSnapshot().VerifEpoch()
		if ep == baseOld {
			if got := dumpIDs(rd); got != baseIDs {
				t.Fatalf("fell back to epoch %d but shows %s, expected %s", ep, got, baseIDs)
			}
			return
		}
		// accepted as the newest epoch: then it must be a correct encoding
		if len(data) < 4 || crc32.ChecksumIEEE(data[:len(data)-4]) != binary.BigEndian.Uint32(data[len(data)-4:]) {
			t.Fatalf("a file with a wrong CRC trailer was accepted as epoch %d", ep)
		}
		if _, err := mon.DecodeSnapshot(data); err != nil {
			t.Fatalf("a file the decoder rejects (%v) was accepted as epoch %d", err, ep)
		}
	})
}

// FuzzHighlight: BestFragments never panics, whatever the text and locations.
func FuzzHighlight(f *testing.F) {
	f.Add([]byte("the quick brown fox"), []byte{4, 9, 10, 15}, 10, 2, false)
	f.Add([]byte("日本語"), []byte{0, 6, 3, 9}, 2, 1, true)
	f.Fuzz(func(t *testing.T, text []byte, locs []byte, size, num int, ansi bool) {
		if size < 0 || size > 1000 || num < 0 || num > 20 {
			return
		}
		tlm := search.TermLocationMap{}
		for i := 0; i+1 < len(locs) && i < 40; i += 2 {
			// offsets around the text: negative, inside, beyond
			s := int(int8(locs[i]))
			e := int(int8(locs[i+1]))
			term := fmt.Sprintf("t%d", i%3)
			tlm[term] = append(tlm[term], &search.Location{Pos: i, Start: s, End: e})
		}
		var formatter highlight.FragmentFormatter = highlight.NewHTMLFragmentFormatter()
		if ansi {
			formatter = highlight.NewANSIFragmentFormatter()
		}
		hl := highlight.NewSimpleHighlighter(highlight.NewSimpleFragmenterSized(size), formatter, highlight.DefaultSeparator)
		frags := hl.BestFragments(tlm, text, num)
		if len(frags) > num {
			t.Fatalf("asked for %d fragments, got %d", num, len(frags))
		}
	})
}

var analyzerNames []string

func init() {
	for n := range checks.C18AnalyzersForFuzz() {
		analyzerNames = append(analyzerNames, n)
	}
	sort.Strings(analyzerNames)
}

// FuzzAnalyzers: every bundled analyzer is total, deterministic and offset-correct on any bytes.
func FuzzAnalyzers(f *testing.F) {
	f.Add([]byte("The quick brown fox's l'avion İstanbul"), uint8(0))
	f.Add([]byte("日本語ｶﾀｶﾅ\xe6\x97"), uint8(6))
	f.Add([]byte("\xff\xfe می‌خواهم"), uint8(11))
	f.Fuzz(func(t *testing.T, data []byte, which uint8) {
		name := analyzerNames[int(which)%len(analyzerNames)]
		mk := checks.C18AnalyzersForFuzz()[name]
		a := mk()
		t1 := a.Analyze(append([]byte(nil), data...))
		t2 := mk().Analyze(append([]byte(nil), data...))
		if len(t1) != len(t2) {
			t.Fatalf("analyzer %s: %d tokens, then %d", name, len(t1), len(t2))
		}
		seen := data
		for _, cf := range a.CharFilters {
			seen = cf.Filter(append([]byte(nil), seen...))
		}
		for i, tk := range t1 {
			if !bytes.Equal(tk.Term, t2[i].Term) || tk.Start != t2[i].Start || tk.End != t2[i].End {
				t.Fatalf("analyzer %s: token %d differs between two runs", name, i)
			}
			if tk.PositionIncr < 0 {
				t.Fatalf("analyzer %s: token %d has PositionIncr %d", name, i, tk.PositionIncr)
			}
			if tk.Start < 0 || tk.Start > tk.End || tk.End > len(seen) {
				t.Fatalf("analyzer %s: token %d (%q) has offsets [%d,%d), the tokenizer saw %d bytes", name, i, tk.Term, tk.Start, tk.End, len(seen))
			}
		}
		_ = analysis.Token{}
	})
}
