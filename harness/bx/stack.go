package bx

import "runtime/debug"

func stack() string { return string(debug.Stack()) }
