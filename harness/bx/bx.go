// Package bx is glue around the bluge API used by all monitors.
package bx

import (
	"context"
	"fmt"
	"sync/atomic"

	"github.com/blugelabs/bluge"
	"github.com/blugelabs/bluge/index"
	"github.com/blugelabs/bluge/index/mergeplan"
	"github.com/blugelabs/bluge/search"
	segment "github.com/blugelabs/bluge_segment_api"
)

// WithIC applies f to the index configuration of cfg.
func WithIC(cfg bluge.Config, f func(ic *index.Config)) bluge.Config {
	ic := cfg.VerifIndexConfig()
	f(&ic)
	return cfg.VerifWithIndexConfig(ic)
}

// NoMerge switches off in-memory and file merging.
func NoMerge(cfg bluge.Config) bluge.Config {
	return WithIC(cfg, func(ic *index.Config) {
		ic.MinSegmentsForInMemoryMerge = 1 << 30
		ic.MergePlanOptions.CalcBudget = func(int64, int64, *mergeplan.Options) int { return 1 << 30 }
	})
}

// MergeHappyOptions makes the planner merge as soon as two or three segments exist.
var MergeHappyOptions = mergeplan.Options{MaxSegmentsPerTier: 2, MaxSegmentSize: 1000000, TierGrowth: 2,
	SegmentsPerMergeTask: 3, FloorSegmentSize: 1, ReclaimDeletesWeight: 2}

// MergeHappy makes file merges and in-memory merges frequent.
func MergeHappy(cfg bluge.Config, memMerge bool) bluge.Config {
	return WithIC(cfg, func(ic *index.Config) {
		ic.MergePlanOptions = MergeHappyOptions
		if memMerge {
			ic.MinSegmentsForInMemoryMerge = 2
		} else {
			ic.MinSegmentsForInMemoryMerge = 1 << 30
		}
	})
}

// StepAbort is the panic value used to abort a search that exceeded its step budget.
type StepAbort struct{ Lookups, Advances int64 }

// CountingReader wraps a search.Reader and counts dictionary look-ups and postings
// steps of the searches run through it; beyond Limit it aborts the search by panicking
// with StepAbort (the logical-step non-termination oracle).
type CountingReader struct {
	search.Reader
	Lookups  int64
	Postings int64
	Limit    int64
}

type countingLookup struct {
	segment.DictionaryLookup
	r *CountingReader
}

func (l *countingLookup) Contains(key []byte) (bool, error) {
	n := atomic.AddInt64(&l.r.Lookups, 1)
	if l.r.Limit > 0 && n > l.r.Limit {
		panic(StepAbort{Lookups: n, Advances: atomic.LoadInt64(&l.r.Postings)})
	}
	return l.DictionaryLookup.Contains(key)
}

func (r *CountingReader) DictionaryLookup(field string) (segment.DictionaryLookup, error) {
	l, err := r.Reader.DictionaryLookup(field)
	if err != nil || l == nil {
		return l, err
	}
	return &countingLookup{DictionaryLookup: l, r: r}, nil
}

func (r *CountingReader) PostingsIterator(term []byte, field string, includeFreq, includeNorm,
	includeTermVectors bool) (segment.PostingsIterator, error) {
	atomic.AddInt64(&r.Postings, 1)
	return r.Reader.PostingsIterator(term, field, includeFreq, includeNorm, includeTermVectors)
}

// Reset clears the counters.
func (r *CountingReader) Reset() {
	atomic.StoreInt64(&r.Lookups, 0)
	atomic.StoreInt64(&r.Postings, 0)
}

// SearchVia runs a search request against any search.Reader the way Reader.Search does.
func SearchVia(ctx context.Context, rd search.Reader, cfg bluge.Config, req bluge.SearchRequest) (search.DocumentMatchIterator, error) {
	coll := req.Collector()
	s, err := req.Searcher(rd, cfg)
	if err != nil {
		return nil, err
	}
	return coll.Collect(ctx, req.Aggregations(), s)
}

// Guarded runs f and converts a StepAbort panic into aborted=true; other panics are
// returned as an error string with panicked=true.
func Guarded(f func() error) (err error, aborted *StepAbort, panicked string) {
	defer func() {
		if r := recover(); r != nil {
			if sa, ok := r.(StepAbort); ok {
				aborted = &sa
				return
			}
			panicked = fmt.Sprintf("%v\n%s", r, stack())
		}
	}()
	err = f()
	return
}

// Hit is a search result in harness terms.
type Hit struct {
	ID     string
	Number uint64
	Score  float64
	Sort   [][]byte
	Stored map[string][]string
	Match  *search.DocumentMatch `json:"-"`
}

// Collect drains an iterator; stored fields are loaded when loadStored is set.
func Collect(it search.DocumentMatchIterator, loadStored bool) ([]Hit, error) {
	var out []Hit
	for {
		m, err := it.Next()
		if err != nil {
			return out, err
		}
		if m == nil {
			return out, nil
		}
		h := Hit{Number: m.Number, Score: m.Score, Match: m}
		for _, sv := range m.SortValue {
			h.Sort = append(h.Sort, append([]byte(nil), sv...))
		}
		if loadStored {
			h.Stored = map[string][]string{}
		}
		err = m.VisitStoredFields(func(field string, value []byte) bool {
			if field == "_id" {
				h.ID = string(value)
			}
			if loadStored {
				h.Stored[field] = append(h.Stored[field], string(value))
			}
			return true
		})
		if err != nil {
			return out, err
		}
		out = append(out, h)
	}
}

// SearchIDs runs a request on a reader and returns the hits.
func SearchIDs(r *bluge.Reader, req bluge.SearchRequest) ([]Hit, error) {
	hits, _, err := SafeCollect(r, req, false)
	return hits, err
}

var defaultSearchCfg = bluge.InMemoryOnlyConfig()

// ErrStepLimit is returned by SafeSearch when the search was aborted by the step counter.
var ErrStepLimit = fmt.Errorf("search aborted: more than %d dictionary look-ups (see C10 known finding: byte-wise range enumeration)", SafeLimit)

// SafeLimit is the look-up budget of SafeSearch.
const SafeLimit = 2000000

// SafeSearch runs a request the way Reader.Search does (default search-side configuration),
// but through the step-counting reader, so that a search that would practically never
// return is aborted. Panics inside the search are returned as errors prefixed "panic:".
func SafeSearch(rd *bluge.Reader, req bluge.SearchRequest) (it search.DocumentMatchIterator, err error) {
	cr := &CountingReader{Reader: rd.VerifSnapshot(), Limit: SafeLimit}
	e, aborted, panicked := Guarded(func() error {
		var err2 error
		it, err2 = SearchVia(context.Background(), cr, defaultSearchCfg, req)
		return err2
	})
	if aborted != nil {
		return nil, ErrStepLimit
	}
	if panicked != "" {
		return nil, fmt.Errorf("panic: %s", panicked)
	}
	return it, e
}

// SafeCollect runs the request through SafeSearch and drains it, all under the step and
// panic guard. The aggregations bucket is returned as well.
func SafeCollect(rd *bluge.Reader, req bluge.SearchRequest, loadStored bool) (hits []Hit, aggs *search.Bucket, err error) {
	cr := &CountingReader{Reader: rd.VerifSnapshot(), Limit: SafeLimit}
	e, aborted, panicked := Guarded(func() error {
		it, err2 := SearchVia(context.Background(), cr, defaultSearchCfg, req)
		if err2 != nil {
			return err2
		}
		hits, err2 = Collect(it, loadStored)
		if err2 == nil {
			aggs = it.Aggregations()
		}
		return err2
	})
	if aborted != nil {
		return nil, nil, ErrStepLimit
	}
	if panicked != "" {
		return nil, nil, fmt.Errorf("panic: %s", panicked)
	}
	return hits, aggs, e
}
